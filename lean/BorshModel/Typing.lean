/-
  Decidable typing `HasTy` (which representations are values of which type) and the
  external predicates borsh relies on: UTF-8 well-formedness, ASCII, NaN bit patterns.
-/
import BorshModel.Ord
import BorshModel.Layout
namespace Borsh

def isCont (b : UInt8) : Bool := 0x80 ≤ b && b ≤ 0xBF

/-- well-formed UTF-8 (Unicode Table 3-7) — what `String::from_utf8` accepts -/
def validUtf8 : Bytes → Bool
  | [] => true
  | b0 :: rest =>
    if b0 < 0x80 then validUtf8 rest
    else if 0xC2 ≤ b0 && b0 ≤ 0xDF then
      match rest with
      | b1 :: r => isCont b1 && validUtf8 r
      | _ => false
    else if 0xE0 ≤ b0 && b0 ≤ 0xEF then
      match rest with
      | b1 :: b2 :: r =>
        (if b0 == 0xE0 then 0xA0 ≤ b1 && b1 ≤ 0xBF
         else if b0 == 0xED then 0x80 ≤ b1 && b1 ≤ 0x9F
         else isCont b1) && isCont b2 && validUtf8 r
      | _ => false
    else if 0xF0 ≤ b0 && b0 ≤ 0xF4 then
      match rest with
      | b1 :: b2 :: b3 :: r =>
        (if b0 == 0xF0 then 0x90 ≤ b1 && b1 ≤ 0xBF
         else if b0 == 0xF4 then 0x80 ≤ b1 && b1 ≤ 0x8F
         else isCont b1) && isCont b2 && isCont b3 && validUtf8 r
      | _ => false
    else false

def allAscii (bs : Bytes) : Bool := bs.all (· < 0x80)

/-- IEEE-754 NaN test on a bit pattern (`f32::is_nan` / `f64::is_nan` after `from_bits`) -/
def isNanBits (k : FloatK) (bits : Nat) : Bool :=
  match k with
  | .f32 => (bits / 2^23) % 2^8 == 2^8 - 1 && bits % 2^23 != 0
  | .f64 => (bits / 2^52) % 2^11 == 2^11 - 1 && bits % 2^52 != 0

def intInRange (k : IntK) (i : Int) : Bool :=
  if k.signed then
    decide (-(256 ^ k.width / 2 : Int) ≤ i) && decide (i < (256 ^ k.width / 2 : Int))
  else
    decide (0 ≤ i) && decide (i < (256 ^ k.width : Int))

/-- two's-complement little-endian bytes of an integer of kind `k` -/
def encInt (k : IntK) (i : Int) : Bytes :=
  leBytes k.width (i % (256 ^ k.width : Int)).toNat

/-- `from_le_bytes` for kind `k` -/
def decInt (k : IntK) (bs : Bytes) : Int :=
  let n := ofLe bs
  if k.signed = true ∧ 256 ^ k.width / 2 ≤ n then (n : Int) - (256 ^ k.width : Int) else (n : Int)

/-- no two elements have equal keys -/
def distinctKeys (key : Val → Val) : List Val → Bool
  | [] => true
  | x :: xs => xs.all (fun y => Val.cmp (key x) (key y) != .eq) && distinctKeys key xs

def isPair : Val → Bool
  | .list [_, _] => true
  | _ => false

mutual
def HasTy : Ty → Val → Bool
  | .int k, .int i => intInRange k i
  | .nonzero k, .int i => intInRange k i && i != 0
  | .float k, .int b => decide (0 ≤ b) && decide (b < (256 ^ k.width : Int))
  | .bool, .bool _ => true
  | .str k, .blob bs => if k.isAscii then allAscii bs else validUtf8 bs
  | .asciiChar, .int i => decide (0 ≤ i) && decide (i < 128)
  | .raw k, .blob bs => bs.length == k.width
  | .seq k t, .list vs =>
    k != .vecDeque && vs.all (HasTy t) && (k != .indexSet || distinctKeys id vs)
  | .seq k t, .deque a b => k == .vecDeque && a.all (HasTy t) && b.all (HasTy t)
  | .set k t, .list vs =>
    vs.all (HasTy t) &&
      (match k with
       | .btreeSet => strictlyAscending id vs
       | .hashSet => distinctKeys id vs)
  | .map k kt vt, .list es =>
    es.all (fun e => match e with
      | .list [a, b] => HasTy kt a && HasTy vt b
      | _ => false) &&
      (match k with
       | .btreeMap => strictlyAscending entryKey es
       | _ => distinctKeys entryKey es)
  | .array n t, .list vs => vs.length == n && vs.all (HasTy t)
  | .prod _ fs, .list vs => HasTyFields fs vs
  | .sum _ vs, .variant idx fvs => HasTyVariant vs idx fvs
  | .wrap _ t, v => HasTy t v
  | .custom t, v => HasTy t v
  | _, _ => false
def HasTyFields : List (Option Name × Bool × Ty) → List Val → Bool
  | [], [] => true
  | (_, _, t) :: fs, v :: vs => HasTy t v && HasTyFields fs vs
  | _, _ => false
def HasTyVariant : List (Name × Nat × List (Option Name × Bool × Ty)) → Nat → List Val → Bool
  | [], _, _ => false
  | (_, _, fs) :: _, 0, fvs => HasTyFields fs fvs
  | _ :: vs, i+1, fvs => HasTyVariant vs i fvs
end

end Borsh
