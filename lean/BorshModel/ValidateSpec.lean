/-
  The declarative side of C10: which containers are well-formed.  Zero-sizedness is a least
  fixed point (a cycle of tuples is *not* zero-sized), reachability is through every edge
  (sequence elements, tuple members, variants, fields), and a defect is one of the six
  `ValidateError` classes, spelled out per definition.
-/
import BorshModel.Schema
namespace Borsh

def Defn.children : Defn → List Name
  | .primitive _ => []
  | .sequence _ _ _ e => [e]
  | .tuple es => es
  | .enum _ vs => vs.map (·.2.2)
  | .struct fs => fs.decls

/-- one round of the zero-size rules, given the set `Z` found so far -/
def zeroBy (Z : List Name) : Defn → Bool
  | .primitive s => s == 0
  | .sequence lw lo hi e => lw == 0 && ((lo == hi && lo == 0) || Z.contains e)
  | .tuple es => es.all Z.contains
  | .enum tw vs => tw == 0 && vs.all (fun v => Z.contains v.2.2)
  | .struct fs => fs.decls.all Z.contains

def zeroStep (c : Container) (Z : List Name) : List Name :=
  (c.defs.filter fun e => c.get e.1 == some e.2 && zeroBy Z e.2).map (·.1)

def iterateN {α : Type} (f : α → α) : Nat → α → α
  | 0, a => a
  | n+1, a => iterateN f n (f a)

/-- least fixed point of the zero-size rules -/
def zeroSet (c : Container) : List Name := iterateN (zeroStep c) (c.defs.length + 1) []

def reachStep (c : Container) (R : List Name) : List Name :=
  R.foldl (fun acc d =>
    match c.get d with
    | some df => df.children.foldl (fun a n => if a.contains n then a else a ++ [n]) acc
    | none => acc) R

/-- every declaration reachable from the root (defined or not) -/
def reachable (c : Container) : List Name := iterateN (reachStep c) (c.defs.length + 2) [c.decl]

def lengthWidthOk (w max : Nat) : Bool :=
  w == 0 || w == 8 || ((w == 1 || w == 2 || w == 4) && decide (max < 2 ^ (w * 8)))

/-- the defects a reachable declaration can have -/
def defectsAt (c : Container) (Z : List Name) (d : Name) : List ValErr :=
  match c.get d with
  | none => [.missing d]
  | some (.sequence lw lo hi e) =>
    if lw == 0 && lo == hi then []
    else
      (if hi < lo then [ValErr.emptyLengthRange d] else []) ++
      (if lengthWidthOk lw hi then []
       else if lw == 3 || lw == 5 || lw == 6 || lw == 7 then [.tagNotPowerOfTwo d]
       else if lw ≤ 7 then [.tagTooNarrow d] else [.tagTooWide d]) ++
      (if Z.contains e then [.zstSequence d] else [])
  | some (.enum tw _) => if tw > 8 then [.tagTooWide d] else []
  | some _ => []

/-- "every declaration reachable from the root is defined, every dynamically sized sequence has a
non-empty length range, a legal length width and elements that are not zero-sized, and every
tag width is at most eight bytes" -/
def wellFormedDec (c : Container) : Bool :=
  let Z := zeroSet c
  (reachable c).all fun d => (defectsAt c Z d).isEmpty

/-- the reported error names a reachable declaration that really has that defect -/
def defectReal (c : Container) (e : ValErr) : Bool :=
  let Z := zeroSet c
  (reachable c).any fun d => (defectsAt c Z d).contains e

/-! ### the same specification, declaratively (no iteration counts, no stacks) -/

/-- zero-sizedness by the rules with a depth bound and **no** cycle handling: true iff a derivation
of depth at most `h` exists.  "Zero-sized" is `∃ h, zsH c h d = true`: a cycle has no finite
derivation, so it is not zero-sized. -/
def zsH (c : Container) : Nat → Name → Bool
  | 0, _ => false
  | h+1, d =>
    match c.get d with
    | none => false
    | some (.primitive s) => s == 0
    | some (.sequence lw lo hi e) => lw == 0 && ((lo == hi && lo == 0) || zsH c h e)
    | some (.tuple es) => es.all (zsH c h)
    | some (.enum tw vs) => tw == 0 && (vs.map (·.2.2)).all (zsH c h)
    | some (.struct fs) => fs.decls.all (zsH c h)

def ZeroSized (c : Container) (d : Name) : Prop := ∃ h, zsH c h d = true

/-- `x` is reachable from `d` through sequence elements, tuple members, variants and fields -/
inductive Reach (c : Container) : Name → Name → Prop
  | refl (d : Name) : Reach c d d
  | step {d e x : Name} (df : Defn) : c.get d = some df → e ∈ df.children → Reach c e x → Reach c d x

/-- the declaration `d` is ill-formed: undefined; or a dynamically sized sequence with an empty
length range, an illegal length width, or zero-sized elements; or an enum whose tag is wider than
eight bytes -/
def Defect (c : Container) (d : Name) : Prop :=
  match c.get d with
  | none => True
  | some (.sequence lw lo hi e) =>
    isFixedLen lw lo hi = false ∧ (hi < lo ∨ lengthWidthOk lw hi = false ∨ ZeroSized c e)
  | some (.enum tw _) => 8 < tw
  | some _ => False

/-- "every declaration reachable from the root is defined, every dynamically sized sequence has a
non-empty length range, a legal length width and elements that are not zero-sized, and every tag
width is at most eight bytes" -/
def WellFormed (c : Container) : Prop := ∀ d, Reach c c.decl d → ¬ Defect c d

end Borsh
