/-
  Line-protocol driver: one case per input line, one observation per output line.
  Evaluates the *same definitions* the theorems are about.
-/
import Driver.Sexp
import BorshModel.Spec
import BorshModel.SchemaOf
import BorshModel.Io
import BorshModel.IoOps
import BorshModel.ArrayGuard
import BorshModel.ValidateSpec
import BorshModel.SchemaWalk
import BorshModel.Coherent
open Borsh Driver

def strict? : Sx → Option Bool
  | .atom "strict" => some true
  | .atom "lax" => some false
  | _ => none

def bytes? : Sx → Option Bytes
  | .atom a => parseHex a
  | _ => none

def showValErr : ValErr → String
  | .zstSequence d => "(zstSequence " ++ hexOf d ++ ")"
  | .tagTooWide d => "(tagTooWide " ++ hexOf d ++ ")"
  | .tagTooNarrow d => "(tagTooNarrow " ++ hexOf d ++ ")"
  | .tagNotPowerOfTwo d => "(tagNotPowerOfTwo " ++ hexOf d ++ ")"
  | .missing d => "(missing " ++ hexOf d ++ ")"
  | .emptyLengthRange d => "(emptyLengthRange " ++ hexOf d ++ ")"

def showValidate : Res ValErr Unit → String
  | .ok () => "ok"
  | .error e => showValErr e
  | .panic p => "panic:" ++ showPanic p

def showMax : MaxRes → String
  | .ok n => "(ok " ++ toString n ++ ")"
  | .error .overflow => "overflow"
  | .error .recursive => "recursive"
  | .error (.missing d) => "(missing " ++ hexOf d ++ ")"
  | .panic p => "panic:" ++ showPanic p

def showAnalyses (c : Container) : String :=
  "validate=" ++ showValidate c.validate ++ " max=" ++ showMax c.maxSerializedSize

/-- the specification's verdict on the implementation's `max_serialized_size` observation -/
def checkMaxAgainstSpec (c : Container) (implMax : String) : String :=
  match c.specMax with
  | .fin n =>
    if n < usizeLimit then
      (if implMax == "ok_" ++ toString n then "ok" else "SPEC: true maximum is " ++ toString n)
    else (if implMax == "overflow" then "ok" else "SPEC: true maximum " ++ toString n ++ " exceeds the address space")
  | .unbounded =>
    if implMax.startsWith "ok_" then "SPEC: unbounded (reachable cycle) but a bound was reported"
    else if implMax.startsWith "missing_" then
      "SPEC: a cycle is met before any missing definition, but a missing definition was reported"
    else "ok"
  | .missing d =>
    if implMax.startsWith "ok_" then "SPEC: definition " ++ hexOf d ++ " is missing but a bound was reported"
    else if implMax == "recursive" then
      "SPEC: definition " ++ hexOf d ++ " is missing and no cycle is met before it, but recursion was reported"
    else if implMax.startsWith "missing_" && implMax != "missing_" ++ hexOf d then
      "SPEC: the missing definition is " ++ hexOf d ++ ", another one was named"
    else "ok"

def nats? (xs : List Sx) : Option (List Nat) :=
  xs.mapM fun x => match x with
    | .atom a => a.toNat?
    | _ => none

def pairs? (xs : List Sx) : Option (List (Nat × Nat)) :=
  xs.mapM fun x => match x with
    | .list [.atom a, .atom b] => do some ((← a.toNat?), (← b.toNat?))
    | _ => none

def stop? : Sx → Option (Option (Nat × Stop))
  | .atom "nostop" => some none
  | .list [.atom "fail", .atom o, k, .atom id] => do
    some (some ((← o.toNat?), .fail (← kind? k) (← id.toNat?)))
  | .list [.atom "zero", .atom o] => do some (some ((← o.toNat?), .zero))
  | _ => none

def script? (cs st : Sx) : Option Script :=
  match cs with
  | .list (.atom "chunks" :: xs) => do some ⟨(← nats? xs), (← stop? st)⟩
  | _ => none

def intr? : Sx → Option (List (Nat × Nat))
  | .list (.atom "intr" :: xs) => pairs? xs
  | _ => none

def showUnit (o : Out Unit) : String :=
  match o with
  | .ok () => "ok"
  | .err e => showErr e
  | .panic p => "panic " ++ showPanic p

def ioOp? : Sx → Option IoOp
  | .list [.atom "read", .atom n] => n.toNat?.map .read
  | .list [.atom "rex", .atom n] => n.toNat?.map .readExact
  | .list [.atom "w", .atom b] => (parseHex b).map .write
  | .list [.atom "wa", .atom b] => (parseHex b).map .writeAll
  | .atom "fl" => some .flush
  | _ => none

def ioOps? : Sx → Option (List IoOp)
  | .list (.atom "ops" :: xs) => xs.mapM ioOp?
  | _ => none

def showIoObs : IoObs → String
  | .got bs => "(got " ++ hexOf bs ++ ")"
  | .count n => "(n " ++ toString n ++ ")"
  | .unit => "unit"
  | .failed e => "(" ++ showErr e ++ ")"

def showObsList (xs : List IoObs) : String := "(" ++ " ".intercalate (xs.map showIoObs) ++ ")"

def valErrOfToken (tok : String) : Option ValErr :=
  match tok.splitOn "_" with
  | [k, h] =>
    match parseHex h with
    | some d =>
      if k == "zstSequence" then some (.zstSequence d)
      else if k == "tagTooWide" then some (.tagTooWide d)
      else if k == "tagTooNarrow" then some (.tagTooNarrow d)
      else if k == "tagNotPowerOfTwo" then some (.tagNotPowerOfTwo d)
      else if k == "missing" then some (.missing d)
      else if k == "emptyLengthRange" then some (.emptyLengthRange d)
      else none
    | none => none
  | _ => none

/-- the specification's verdict on the implementation's `validate` observation -/
def checkValidateAgainstSpec (c : Container) (tok : String) : String :=
  if tok == "panic" then "SPEC: validate panicked"
  else if tok == "ok" then
    (if wellFormedDec c then "ok"
     else "SPEC: ill-formed container accepted; defects: " ++
       toString (((reachable c).map fun d => (defectsAt c (zeroSet c) d).map showValErr).flatten.take 3))
  else match valErrOfToken tok with
    | some e =>
      if wellFormedDec c then "SPEC: well-formed container rejected"
      else if defectReal c e then "ok"
      else "SPEC: the reported error names no real defect"
    | none => "bad-case token"

open Derive in
def fieldAttr? : Sx → Option FieldAttr
  | .atom "skip" => some .skip | .atom "ser_with" => some .serializeWith
  | .atom "de_with" => some .deserializeWith | .atom "bound" => some .bound
  | .atom "schema_params" => some .schemaParams | .atom "schema_funcs" => some .schemaFuncs
  | .atom "unknown" => some .unknown
  | _ => none

open Derive in
def fieldDef? : Sx → Option FieldDef
  | .list (.atom "f" :: attrs) => do
    let as ← attrs.mapM fun a => match a with
      | .list ks => ks.mapM fieldAttr?
      | _ => none
    some ⟨as⟩
  | _ => none

open Derive in
def itemAttr? : Sx → Option ItemAttr
  | .list [.atom "use", .atom "true"] => some (.useDiscriminant (some true))
  | .list [.atom "use", .atom "false"] => some (.useDiscriminant (some false))
  | .list [.atom "use", .atom "other"] => some (.useDiscriminant none)
  | .atom "init" => some .init | .atom "crate" => some .crate_ | .atom "unknown" => some .unknown
  | _ => none

open Derive in
def itemAttrs? : Sx → Option (List (List ItemAttr))
  | .list (.atom "attrs" :: as) => as.mapM fun a => match a with
    | .list ks => ks.mapM itemAttr?
    | _ => none
  | _ => none

open Derive in
def itemDef? : Sx → Option ItemDef
  | .list [.atom "item", .atom "union"] => some .union_
  | .list [.atom "item", .atom "struct", attrs, .list (.atom "fields" :: fs)] => do
    some (.struct_ (← itemAttrs? attrs) (← fs.mapM fieldDef?))
  | .list [.atom "item", .atom "enum", attrs, .list (.atom "variants" :: vs)] => do
    let vs ← vs.mapM fun v => match v with
      | .list (.atom "v" :: .atom d :: fs) => do
        let discr ← (if d == "_" then some none else d.toInt?.map some)
        some (VariantDef.mk discr (← fs.mapM fieldDef?))
      | _ => none
    some (.enum_ (← itemAttrs? attrs) vs)
  | _ => none

open Derive in
def showReject : Reject → String
  | .union_ => "union" | .multipleBorshAttrs => "multipleBorshAttrs" | .unknownItemKey => "unknownItemKey"
  | .unknownFieldKey => "unknownFieldKey" | .useDiscriminantOnStruct => "useDiscriminantOnStruct"
  | .useDiscriminantNotBool => "useDiscriminantNotBool"
  | .explicitDiscriminantWithoutSetting => "explicitDiscriminantWithoutSetting"
  | .tooManyVariants => "tooManyVariants" | .discriminantOutOfRange => "discriminantOutOfRange"
  | .skipConflict => "skipConflict"

def runCase (xs : List Sx) : String :=
  match xs with
  | [.atom "enc", t, v] =>
    match ty? t, val? v with
    | some t, some v =>
      if HasTy t v then showOut hexOf (toVec t v) else "bad-case ill-typed"
    | _, _ => "bad-case parse"
  | [.atom "spec", t, v] =>
    match ty? t, val? v with
    | some t, some v =>
      if HasTy t v then
        match Spec.enc t v with
        | .ok bs => "ok " ++ hexOf bs
        | .error .nan => "err invalidData nanSer"
        | .error .tooLong => "err invalidData simple"
        | .error .zst => "err invalidData zst"
        | .error .illTyped => "bad-case spec-ill-typed"
      else "bad-case ill-typed"
    | _, _ => "bad-case parse"
  | [.atom "dec", st, t, b] =>
    match strict? st, ty? t, bytes? b with
    | some st, some t, some bs =>
      showOut (fun r => showVal r.1 ++ " rest=" ++ toString r.2.length) (deserialize st t bs)
    | _, _, _ => "bad-case parse"
  | [.atom "fs", st, t, b] =>
    match strict? st, ty? t, bytes? b with
    | some st, some t, some bs => showOut showVal (fromSlice st t bs)
    | _, _, _ => "bad-case parse"
  | [.atom "rt", st, t, v] =>
    match strict? st, ty? t, val? v with
    | some st, some t, some v =>
      if !HasTy t v then "bad-case ill-typed" else
      match toVec t v with
      | .ok bs => showOut showVal (fromSlice st t bs)
      | .err e => "enc" ++ showErr e
      | .panic p => "encpanic " ++ showPanic p
    | _, _, _ => "bad-case parse"
  | [.atom "stream", st, .list ts, b] =>
    match strict? st, ts.mapM ty?, bytes? b with
    | some st, some ts, some bs => showOut
        (fun r => "(" ++ " ".intercalate (r.1.map showVal) ++ ") rest=" ++ toString r.2.length)
        (deserializeMany st ts bs)
    | _, _, _ => "bad-case parse"
  | [.atom "decR", st, t, b, cs, it, stp, .atom entry] =>
    match strict? st, ty? t, bytes? b, script? cs stp, intr? it with
    | some st, some t, some bs, some sc, some intr =>
      let s0 : RState := ⟨bs, 0, intr⟩
      let r := if entry == "dr" then deserializeReader (Rd.script sc) st t s0
               else fromReader (Rd.script sc) st t s0
      showOut (fun r => showVal r.1 ++ " pulled=" ++ toString r.2.pos) r
    | _, _, _, _, _ => "bad-case parse"
  | [.atom "encW", t, v, cs, it, stp] =>
    match ty? t, val? v, script? cs stp, intr? it with
    | some t, some v, some sc, some intr =>
      if !HasTy t v then "bad-case ill-typed" else
      let r := toWriterScript sc intr t v
      showUnit r.2 ++ " delivered=" ++ hexOf r.1.delivered
    | _, _, _, _ => "bad-case parse"
  | [.atom "encF", t, v, .atom cap] =>
    match ty? t, val? v, cap.toNat? with
    | some t, some v, some cap =>
      if !HasTy t v then "bad-case ill-typed" else
      let r := toFixedBuffer cap t v
      showUnit r.2 ++ " written=" ++ hexOf r.1.1 ++ " room=" ++ toString r.1.2
    | _, _, _ => "bad-case parse"
  | [.atom "olen", t, v] =>
    match ty? t, val? v with
    | some t, some v =>
      if !HasTy t v then "bad-case ill-typed" else showOut toString (objectLength t v)
    | _, _ => "bad-case parse"
  | [.atom "ioR", .atom io, b, ops] =>
    match bytes? b, ioOps? ops with
    | some bs, some ops =>
      let r := if io == "std" then Std.readerOps ops bs else NoStd.readerOps ops bs
      let failed := match r.1.getLast? with
        | some (.failed _) => true
        | _ => false
      -- the position after a failed read_exact is unspecified by std::io
      showObsList r.1 ++ " rest=" ++ (if failed then "*" else hexOf r.2)
    | _, _ => "bad-case parse"
  | [.atom "ioW", .atom io, .atom cap, ops] =>
    match cap.toNat?, ioOps? ops with
    | some cap, some ops =>
      let r := if io == "std" then Std.sliceWriterOps ops ([], cap) else NoStd.sliceWriterOps ops ([], cap)
      showObsList r.1 ++ " written=" ++ hexOf r.2.1 ++ " room=" ++ toString r.2.2
    | _, _ => "bad-case parse"
  | [.atom "ioV", .atom io, ops] =>
    match ioOps? ops with
    | some ops =>
      let r := if io == "std" then Std.vecWriterOps ops [] else NoStd.vecWriterOps ops []
      showObsList r.1 ++ " written=" ++ hexOf r.2
    | none => "bad-case parse"
  | [.atom "guard", .atom n, .atom k, .atom "errdrop", .atom j] =>
    -- error return at position k while the destructor of element j unwinds during the cleanup
    match n.toNat?, k.toNat?, j.toNat? with
    | some n, some k, some j =>
      let r := arrayRunDropPanic n (fun i => if i == k then .err else .ok) j
      let evs := r.1.map fun e => match e with
        | .construct i => "c" ++ toString i
        | .dropElem i => "d" ++ toString i
        | .handOver i => "h" ++ toString i
        | .touchUninit i => "U" ++ toString i
      let oc := match r.2 with
        | .returned => "returned"
        | .failed => "failed"
        | .unwound => "unwound"
      oc ++ " (" ++ " ".intercalate evs ++ ")"
    | _, _, _ => "bad-case parse"
  | [.atom "guard", .atom n, .atom k, .atom mode] =>
    match n.toNat? with
    | some n =>
      let plan : Nat → ElemResult := fun i =>
        match k.toNat? with
        | some k => if i == k then (if mode == "panic" then .panic else .err) else .ok
        | none => .ok
      let r := arrayRun n plan
      let evs := r.1.map fun e => match e with
        | .construct i => "c" ++ toString i
        | .dropElem i => "d" ++ toString i
        | .handOver i => "h" ++ toString i
        | .touchUninit i => "U" ++ toString i
      let oc := match r.2 with
        | .returned => "returned"
        | .failed => "failed"
        | .unwound => "unwound"
      oc ++ " (" ++ " ".intercalate evs ++ ")"
    | none => "bad-case parse"
  | [.atom "derive", it] =>
    match itemDef? it with
    | some d =>
      match Derive.accepts d with
      | none => "accept"
      | some r => "reject " ++ showReject r
    | none => "bad-case parse"
  | [.atom "cont", st, b] =>
    match strict? st, bytes? b with
    | some st, some bs =>
      match fromSlice st containerTy bs with
      | .ok v =>
        match containerOfVal v with
        | some c => "ok " ++ showAnalyses c
        | none => "bad-case container-shape"
      | .err e => showErr e
      | .panic p => "panic " ++ showPanic p
    | _, _ => "bad-case parse"
  | [.atom "contchk", st, b, .atom implMax] =>
    match strict? st, bytes? b with
    | some st, some bs =>
      match fromSlice st containerTy bs with
      | .ok v =>
        match containerOfVal v with
        | some c => checkMaxAgainstSpec c implMax
        | none => "bad-case container-shape"
      | _ => "ok"
    | _, _ => "bad-case parse"
  | [.atom "withschema", st, t, u, v] =>
    match strict? st, ty? t, ty? u, val? v with
    | some st, some t, some u, some v =>
      if !HasTy t v then "bad-case ill-typed" else
      match tryToVecWithSchema t v with
      | .ok bs => showOut showVal (tryFromSliceWithSchema st u bs)
      | .err e => "enc" ++ showErr e
      | .panic p => "encpanic " ++ showPanic p
    | _, _, _, _ => "bad-case parse"
  | [.atom "wsverdict", t, u, .atom tok] =>
    -- the specification's verdict on what the implementation did with a value written at `t` and read
    -- at `u`: accepted although the two types' schemas differ is a violation of the property itself
    match ty? t, ty? u with
    | some t, some u =>
      match schemaOf t, schemaOf u with
      | .ok ct, .ok cu =>
        if ct == cu then "ok"
        else if tok == "accepted" then
          "SPEC: the schemas of the two types differ (" ++ hexOf ct.decl ++ " / " ++ hexOf cu.decl ++ ") but the value was accepted"
        else "ok"
      | _, _ => "ok"
    | _, _ => "bad-case parse"
  | [.atom "wsraw", st, u, b] =>
    match strict? st, ty? u, bytes? b with
    | some st, some u, some bs => showOut showVal (tryFromSliceWithSchema st u bs)
    | _, _, _ => "bad-case parse"
  | [.atom "contval", st, b, .atom tok] =>
    match strict? st, bytes? b with
    | some st, some bs =>
      match fromSlice st containerTy bs with
      | .ok v =>
        match containerOfVal v with
        | some c => checkValidateAgainstSpec c tok
        | none => "bad-case container-shape"
      | _ => "ok"
    | _, _ => "bad-case parse"
  | [.atom "contread", b] =>
    -- can every definition of the container be read at all (hypothesis of the tightness theorem)
    match bytes? b with
    | some bs =>
      match fromSlice false containerTy bs with
      | .ok v =>
        match containerOfVal v with
        | some c => "readable=" ++ toString c.readable
        | none => "bad-case container-shape"
      | _ => "bad-case container-bytes"
    | none => "bad-case parse"
  | [.atom "sdec", cb, eb] =>
    -- the schema-only reader of the specification (`sdec`) on a container and an encoding
    match bytes? cb, bytes? eb with
    | some cbs, some ebs =>
      match fromSlice false containerTy cbs with
      | .ok v =>
        match containerOfVal v with
        | some c =>
          match sdec c 66 c.decl ebs with
          | some rest => "ok rest=" ++ toString rest.length
          | none => "fail"
        | none => "bad-case container-shape"
      | _ => "bad-case container-bytes"
    | _, _ => "bad-case parse"
  | [.atom "hyp08", t] =>
    -- the hypotheses of theorem `C08_describes` at this type: name coherence, a shape the schema
    -- impls exist for, well-formedness
    match ty? t with
    | some t =>
      if coherentB t && shapeOk t && WfTy t then "ok"
      else "hypothesis-fails coherent=" ++ toString (coherentB t) ++ " shape=" ++ toString (shapeOk t) ++
        " wf=" ++ toString (WfTy t)
    | none => "bad-case parse"
  | [.atom "schema", t] =>
    match ty? t with
    | some t =>
      match schemaOf t with
      | .ok c =>
        match toVec containerTy (containerToVal c) with
        | .ok bs => "ok cont=" ++ hexOf bs ++ " " ++ showAnalyses c
        | _ => "bad-case container-encode"
      | .error _ => "bad-case"
      | .panic p => "panic " ++ showPanic p
    | none => "bad-case parse"
  | _ => "bad-case op"

/-! ### recursive items: `(mu CAP Name body)` with `(ref Name)` inside, unfolded at the S-expression
level to the depth the case needs.  The universe of the model is recursion-free; an unfolding is an
ordinary member of it, so every theorem applies to it.  The bottom of the unfolding is an enum without
variants (it has no values and rejects every input); the depth is chosen so that it is never reached,
and the result is required to be the same one level deeper. -/

partial def substRef (name : String) (rep : Sx) : Sx → Sx
  | .list [.atom "ref", .atom n] => if n == name then rep else .list [.atom "ref", .atom n]
  | .list (.atom "mu" :: cap :: .atom n :: rest) =>
    if n == name then .list (.atom "mu" :: cap :: .atom n :: rest)
    else .list (.atom "mu" :: cap :: .atom n :: rest.map (substRef name rep))
  | .list xs => .list (xs.map (substRef name rep))
  | a => a

partial def expandMu (d : Nat) : Sx → Sx
  | .list [.atom "mu", .atom cap, .atom n, body] =>
    let d' := min d (cap.toNat?.getD 0)
    let body' := expandMu d body
    let bottom := Sx.list [.atom "sum", .list [.atom "derivedsrc", .atom n, .atom "0", .atom "n"]]
    (List.range d').foldl (fun acc _ => substRef n acc body') bottom
  | .list xs => .list (xs.map (expandMu d))
  | a => a

partial def sxDepth : Sx → Nat
  | .atom _ => 0
  | .list xs => 1 + (xs.map sxDepth).foldl max 0

partial def sxMaxHex : Sx → Nat
  | .atom a => if a.startsWith "x" then (a.length - 1) / 2 else 0
  | .list xs => (xs.map sxMaxHex).foldl max 0

partial def sxHasMu : Sx → Bool
  | .list (.atom "mu" :: _) => true
  | .list xs => xs.any sxHasMu
  | .atom _ => false

def runLine (xs : List Sx) : String :=
  if xs.any sxHasMu then
    let d := max ((xs.map sxMaxHex).foldl max 0 + 2) ((xs.map sxDepth).foldl max 0)
    let r1 := runCase (xs.map (expandMu d))
    let r2 := runCase (xs.map (expandMu (d + 1)))
    if r1 == r2 then r1 else "unfold-unstable " ++ r1 ++ " // " ++ r2
  else runCase xs

partial def loop (h : IO.FS.Stream) (out : IO.FS.Stream) : IO Unit := do
  let line ← h.getLine
  if line.isEmpty then return ()
  let r := match parseLine line with
    | some xs => runLine xs
    | none => "bad-case sexp"
  out.putStrLn r
  loop h out

def main : IO Unit := do
  let stdin ← IO.getStdin
  let stdout ← IO.getStdout
  loop stdin stdout
