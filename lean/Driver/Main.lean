/-
  Line-protocol driver: one case per input line, one observation per output line.
  Evaluates the *same definitions* the theorems are about.
-/
import Driver.Sexp
import BorshModel.Spec
open Borsh Driver

def strict? : Sx → Option Bool
  | .atom "strict" => some true
  | .atom "lax" => some false
  | _ => none

def bytes? : Sx → Option Bytes
  | .atom a => parseHex a
  | _ => none

def runCase (xs : List Sx) : String :=
  match xs with
  | [.atom "enc", t, v] =>
    match ty? t, val? v with
    | some t, some v =>
      if HasTy t v then showOut hexOf (toVec t v) else "bad-case ill-typed"
    | _, _ => "bad-case parse"
  | [.atom "spec", t, v] =>
    match ty? t, val? v with
    | some t, some v =>
      if HasTy t v then
        match Spec.enc t v with
        | .ok bs => "ok " ++ hexOf bs
        | .error .nan => "err invalidData nanSer"
        | .error .tooLong => "err invalidData simple"
        | .error .zst => "err invalidData zst"
        | .error .illTyped => "bad-case spec-ill-typed"
      else "bad-case ill-typed"
    | _, _ => "bad-case parse"
  | [.atom "dec", st, t, b] =>
    match strict? st, ty? t, bytes? b with
    | some st, some t, some bs =>
      showOut (fun r => showVal r.1 ++ " rest=" ++ toString r.2.length) (deserialize st t bs)
    | _, _, _ => "bad-case parse"
  | [.atom "fs", st, t, b] =>
    match strict? st, ty? t, bytes? b with
    | some st, some t, some bs => showOut showVal (fromSlice st t bs)
    | _, _, _ => "bad-case parse"
  | [.atom "rt", st, t, v] =>
    match strict? st, ty? t, val? v with
    | some st, some t, some v =>
      if !HasTy t v then "bad-case ill-typed" else
      match toVec t v with
      | .ok bs => showOut showVal (fromSlice st t bs)
      | .err e => "enc" ++ showErr e
      | .panic p => "encpanic " ++ showPanic p
    | _, _, _ => "bad-case parse"
  | [.atom "stream", st, .list ts, b] =>
    match strict? st, ts.mapM ty?, bytes? b with
    | some st, some ts, some bs => showOut
        (fun r => "(" ++ " ".intercalate (r.1.map showVal) ++ ") rest=" ++ toString r.2.length)
        (deserializeMany st ts bs)
    | _, _, _ => "bad-case parse"
  | _ => "bad-case op"

partial def loop (h : IO.FS.Stream) (out : IO.FS.Stream) : IO Unit := do
  let line ← h.getLine
  if line.isEmpty then return ()
  let r := match parseLine line with
    | some xs => runCase xs
    | none => "bad-case sexp"
  out.putStrLn r
  loop h out

def main : IO Unit := do
  let stdin ← IO.getStdin
  let stdout ← IO.getStdout
  loop stdin stdout
