/-
  S-expressions for the line protocol: tokeniser, parser, and the readers/printers for
  `Ty`, `Val`, `Err`.  Part of the correspondence machinery (trusted), not of the model.
-/
import BorshModel.De
import BorshModel.Derive
namespace Driver
open Borsh

inductive Sx
  | atom (s : String)
  | list (xs : List Sx)
  deriving Inhabited, Repr

partial def tokenize (cs : List Char) (cur : List Char) (acc : Array String) : Array String :=
  let flush (acc : Array String) := if cur.isEmpty then acc else acc.push (String.ofList cur.reverse)
  match cs with
  | [] => flush acc
  | c :: rest =>
    if c == '(' || c == ')' then tokenize rest [] ((flush acc).push (String.singleton c))
    else if c == ' ' || c == '\t' || c == '\n' || c == '\r' then tokenize rest [] (flush acc)
    else tokenize rest (c :: cur) acc

/-- parse a sequence of S-expressions up to a closing paren or end of input -/
partial def parseSeq (toks : Array String) (i : Nat) (acc : Array Sx) : Option (Array Sx × Nat) :=
  if h : i < toks.size then
    let t := toks[i]
    if t == "(" then
      match parseSeq toks (i + 1) #[] with
      | some (xs, j) =>
        if j < toks.size && toks[j]! == ")" then parseSeq toks (j + 1) (acc.push (.list xs.toList))
        else none
      | none => none
    else if t == ")" then some (acc, i)
    else parseSeq toks (i + 1) (acc.push (.atom t))
  else some (acc, i)

def parseLine (line : String) : Option (List Sx) :=
  let toks := tokenize line.toList [] #[]
  match parseSeq toks 0 #[] with
  | some (xs, j) => if j == toks.size then some xs.toList else none
  | none => none

/-! ### hex -/

def hexDigit (c : Char) : Option Nat :=
  if '0' ≤ c && c ≤ '9' then some (c.toNat - '0'.toNat)
  else if 'a' ≤ c && c ≤ 'f' then some (c.toNat - 'a'.toNat + 10)
  else if 'A' ≤ c && c ≤ 'F' then some (c.toNat - 'A'.toNat + 10)
  else none

partial def parseHexChars (cs : List Char) (acc : Array UInt8) : Option (Array UInt8) :=
  match cs with
  | [] => some acc
  | a :: b :: rest =>
    match hexDigit a, hexDigit b with
    | some x, some y => parseHexChars rest (acc.push (UInt8.ofNat (16 * x + y)))
    | _, _ => none
  | _ => none

/-- `x0a0b…` (the leading `x` keeps the empty string printable) -/
def parseHex (s : String) : Option Bytes :=
  match s.toList with
  | 'x' :: cs => (parseHexChars cs #[]).map Array.toList
  | _ => none

def hexChar (n : Nat) : Char :=
  if n < 10 then Char.ofNat ('0'.toNat + n) else Char.ofNat ('a'.toNat + n - 10)

def hexOf (bs : Bytes) : String :=
  String.ofList ('x' :: (bs.foldr (fun b acc => hexChar (b.toNat / 16) :: hexChar (b.toNat % 16) :: acc) []))

/-- `~` stands for a space inside a declaration (`G1<u8,~String>`) -/
def nameOf (s : String) : Name := (s.replace "~" " ").toUTF8.toList

/-! ### Ty -/

def intK? : String → Option IntK
  | "u8" => some .u8 | "u16" => some .u16 | "u32" => some .u32 | "u64" => some .u64
  | "u128" => some .u128 | "i8" => some .i8 | "i16" => some .i16 | "i32" => some .i32
  | "i64" => some .i64 | "i128" => some .i128 | "usize" => some .usize | "isize" => some .isize
  | _ => none

def strK? : String → Option StrK
  | "string" => some .string | "str" => some .str | "boxStr" => some .boxStr
  | "cowStr" => some .cowStr | "rcStr" => some .rcStr
  | "asciiString" => some .asciiString | "asciiStr" => some .asciiStr
  | _ => none

def rawK? : String → Option RawK
  | "ipv4" => some .ipv4 | "ipv6" => some .ipv6 | "objectId" => some .objectId
  | _ => none

def seqK? : String → Option SeqK
  | "vec" => some .vec | "slice" => some .slice | "boxSlice" => some .boxSlice
  | "cowSlice" => some .cowSlice | "rcSlice" => some .rcSlice | "vecDeque" => some .vecDeque
  | "linkedList" => some .linkedList | "indexSet" => some .indexSet | "bytes" => some .bytes
  | "bytesMut" => some .bytesMut
  | _ => none

def setK? : String → Option SetK
  | "hash" => some .hashSet | "btree" => some .btreeSet
  | _ => none

def mapK? : String → Option MapK
  | "hash" => some .hashMap | "btree" => some .btreeMap | "index" => some .indexMap
  | _ => none

def wrapK? : String → Option WrapK
  | "ref" => some .ref | "box" => some .box | "rc" => some .rc | "arc" => some .arc
  | "cell" => some .cell | "refCell" => some .refCell | "cow" => some .cow
  | _ => none

def bool01? : String → Option Bool
  | "0" => some false | "1" => some true | _ => none

def prodK? : Sx → Option ProdK
  | .atom "tuple" => some .tuple | .atom "unit" => some .unit | .atom "rangeFull" => some .rangeFull
  | .atom "phantom" => some .phantom | .atom "range" => some .range
  | .atom "rangeInclusive" => some .rangeInclusive | .atom "rangeFrom" => some .rangeFrom
  | .atom "rangeTo" => some .rangeTo | .atom "rangeToInclusive" => some .rangeToInclusive
  | .atom "sockV4" => some .sockV4 | .atom "sockV6" => some .sockV6
  | .list [.atom "struct", .atom n, .atom i] => (bool01? i).map fun b => .struct (nameOf n) b
  | _ => none

def sumK? : Sx → Option SumK
  | .atom "option" => some .option | .atom "result" => some .result
  | .atom "ipAddr" => some .ipAddr | .atom "sockAddr" => some .sockAddr
  | .list [.atom "derived", .atom n, .atom i] => (bool01? i).map fun b => .derived (nameOf n) b
  | _ => none

mutual
partial def ty? : Sx → Option Ty
  | .atom "f32" => some (.float .f32)
  | .atom "f64" => some (.float .f64)
  | .atom "bool" => some .bool
  | .atom "asciiChar" => some .asciiChar
  | .atom "unit" => some Ty.unit
  | .atom a => (intK? a).map .int
  | .list [.atom "nz", .atom k] => (intK? k).map .nonzero
  | .list [.atom "str", .atom k] => (strK? k).map .str
  | .list [.atom "raw", .atom k] => (rawK? k).map .raw
  | .list [.atom "seq", .atom k, t] => do some (.seq (← seqK? k) (← ty? t))
  | .list [.atom "set", .atom k, t] => do some (.set (← setK? k) (← ty? t))
  | .list [.atom "map", .atom k, a, b] => do some (.map (← mapK? k) (← ty? a) (← ty? b))
  | .list [.atom "array", .atom n, t] => do some (.array (← n.toNat?) (← ty? t))
  | .list [.atom "wrap", .atom k, t] => do some (.wrap (← wrapK? k) (← ty? t))
  | .list [.atom "custom", t] => do some (.custom (← ty? t))
  | .list [.atom "option", t] => do some (Ty.option (← ty? t))
  | .list [.atom "result", a, b] => do some (Ty.result (← ty? a) (← ty? b))
  | .list (.atom "tuple" :: ts) => do some (Ty.tuple (← ts.mapM ty?))
  | .list (.atom "prod" :: k :: fs) => do some (.prod (← prodK? k) (← fs.mapM field?))
  | .list (.atom "sum" :: .list [.atom "derivedsrc", .atom n, .atom i, .atom use] :: vs) => do
    -- surface syntax of a derived enum: the tags are assigned by the model of the macro
    let init ← bool01? i
    let raw ← vs.mapM variantSrc?
    let useDiscr := use == "1"
    let tags := Derive.tagsOf useDiscr (raw.map (·.2.1))
    some (.sum (.derived (nameOf n) init)
      ((raw.zip tags).map fun p => (p.1.1, p.2, p.1.2.2)))
  | .list (.atom "sum" :: k :: vs) => do some (.sum (← sumK? k) (← vs.mapM variant?))
  | _ => none
partial def field? : Sx → Option Field
  | .list [.atom n, .atom s, t] => do
    some ((if n == "_" then none else some (nameOf n)), (← bool01? s), (← ty? t))
  | _ => none
partial def variantSrc? : Sx → Option (Name × Option Int × List Field)
  | .list (.atom n :: .atom d :: fs) => do
    let discr ← (if d == "_" then some none else d.toInt?.map some)
    some (nameOf n, discr, (← fs.mapM field?))
  | _ => none
partial def variant? : Sx → Option Variant
  | .list (.atom n :: .atom g :: fs) => do some (nameOf n, (← g.toNat?), (← fs.mapM field?))
  | _ => none
end

/-! ### Val -/

partial def val? : Sx → Option Val
  | .atom "true" => some (.bool true)
  | .atom "false" => some (.bool false)
  | .atom a =>
    if a.startsWith "x" then (parseHex a).map .blob
    else (a.toInt?).map .int
  | .list (.atom "l" :: vs) => do some (.list (← vs.mapM val?))
  | .list [.atom "d", .list a, .list b] => do some (.deque (← a.mapM val?) (← b.mapM val?))
  | .list (.atom "v" :: .atom i :: vs) => do some (.variant (← i.toNat?) (← vs.mapM val?))
  | _ => none

partial def showVal : Val → String
  | .int i => toString i
  | .bool b => if b then "true" else "false"
  | .blob bs => hexOf bs
  | .list vs => "(l" ++ String.join (vs.map fun v => " " ++ showVal v) ++ ")"
  | .deque a b =>
    "(d (" ++ " ".intercalate (a.map showVal) ++ ") (" ++ " ".intercalate (b.map showVal) ++ "))"
  | .variant i vs => "(v " ++ toString i ++ String.join (vs.map fun v => " " ++ showVal v) ++ ")"

/-! ### outcomes -/

def showKind : Kind → String
  | .invalidData => "invalidData" | .unexpectedEof => "unexpectedEof"
  | .interrupted => "interrupted" | .writeZero => "writeZero"
  | .outOfMemory => "outOfMemory" | .other => "other"
  | .user n => "(user " ++ toString n ++ ")"

def showTagK : TagK → String
  | .bool => "bool" | .option => "option" | .result => "result"
  | .ipAddr => "ipAddr" | .sockAddr => "sockAddr" | .derived => "derived"

def showMsg : Msg → String
  | .unexpectedLength => "unexpectedLength" | .notAllBytesRead => "notAllBytesRead"
  | .zst => "zst" | .keyOrder => "keyOrder" | .nanSer => "nanSer" | .nanDe => "nanDe"
  | .zeroNonZero => "zeroNonZero"
  | .badTag k b => "(badTag " ++ showTagK k ++ " " ++ toString b.toNat ++ ")"
  | .utf8 => "utf8" | .ascii => "ascii" | .simple => "simple" | .refCell => "refCell"
  | .eofFill => "eofFill" | .writeZeroMsg => "writeZeroMsg" | .schemaMismatch => "schemaMismatch"
  | .user n => "(user " ++ toString n ++ ")"

/-- protocol convention of the scripted readers and writers: payload ids from 900 up stand for "no
message" (an error built from the bare kind, except kind `Other`); the model carries the payload
through unchanged either way -/
def showErr (e : Err) : String :=
  let m := match e.msg with
    | .user n => if 900 ≤ n && e.kind != .other then "simple" else showMsg e.msg
    | m => showMsg m
  "err " ++ showKind e.kind ++ " " ++ m

def showPanic : PanicSite → String
  | .divByZero => "divByZero" | .countOverflow => "countOverflow" | .sliceIndex => "sliceIndex"
  | .unwrapNone => "unwrapNone" | .assertRedefinition => "assertRedefinition"
  | .unreachable => "unreachable" | .addOverflow => "addOverflow" | .fuel => "fuel"

def showOut {α : Type} (f : α → String) : Out α → String
  | .ok a => "ok " ++ f a
  | .err e => showErr e
  | .panic p => "panic " ++ showPanic p

def kind? : Sx → Option Kind
  | .atom "invalidData" => some .invalidData | .atom "unexpectedEof" => some .unexpectedEof
  | .atom "interrupted" => some .interrupted | .atom "writeZero" => some .writeZero
  | .atom "outOfMemory" => some .outOfMemory | .atom "other" => some .other
  | .list [.atom "user", .atom n] => n.toNat?.map .user
  | _ => none

end Driver
