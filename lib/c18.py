"""C18: the derives refuse ambiguous / unrepresentable definitions.

Generates legal items (positive controls) and single-rule violations applied at every variant /
field / attribute position, compiles each one as its own tiny crate with a direct `rustc`
against the borsh rlib and derive .so that cargo built from /repo's working tree, and returns
case lines (`derive <item description>`) with the observed verdict."""
import os, random, subprocess, glob, json
from concurrent.futures import ThreadPoolExecutor

PRELUDE = '''#![allow(dead_code, unused_imports)]
use borsh::{BorshDeserialize, BorshSchema, BorshSerialize};
mod fx {
    use borsh::io::{Read, Result, Write};
    use borsh::{BorshDeserialize, BorshSerialize};
    pub fn ser<W: Write>(v: &u32, w: &mut W) -> Result<()> { v.swap_bytes().serialize(w) }
    pub fn de<R: Read>(r: &mut R) -> Result<u32> { u32::deserialize_reader(r).map(u32::swap_bytes) }
    pub fn decl() -> borsh::schema::Declaration { "u32".into() }
    pub fn defs(d: &mut std::collections::BTreeMap<borsh::schema::Declaration, borsh::schema::Definition>) {
        <u32 as borsh::BorshSchema>::add_definitions_recursively(d)
    }
}
'''

KEY_SRC = {
    'skip': 'skip',
    'ser_with': 'serialize_with = "fx::ser"',
    'de_with': 'deserialize_with = "fx::de"',
    'bound': 'bound(serialize = "", deserialize = "")',
    'schema_params': 'schema(params = "")',
    'schema_funcs': 'schema(with_funcs(declaration = "fx::decl", definitions = "fx::defs"))',
    'unknown': 'skipp',
    'unknown2': 'use_discriminant = true',
}
KEY_SX = {'unknown2': 'unknown'}

class F:
    def __init__(self, attrs=None, ty='u32'):
        self.attrs = attrs or []   # list of lists of keys (one list per #[borsh(..)] attribute)
        self.ty = ty
    def src(self, name=None):
        a = ''.join('#[borsh(%s)] ' % ', '.join(KEY_SRC[k] for k in ks) for ks in self.attrs)
        return '%s%s%s' % (a, (name + ': ') if name else '', self.ty)
    def sx(self):
        return '(f%s)' % ''.join(' (%s)' % ' '.join(KEY_SX.get(k, k) for k in ks) for ks in self.attrs)

ITEM_KEY_SRC = {
    'use_true': 'use_discriminant = true', 'use_false': 'use_discriminant = false',
    'use_seven': 'use_discriminant = 7', 'use_str': 'use_discriminant = "true"', 'use_ident': 'use_discriminant = maybe',
    'init': 'init = init_hook', 'crate': 'crate = "borsh"', 'unknown': 'foo = 1', 'unknown_skip': 'skip',
}
ITEM_KEY_SX = {
    'use_true': '(use true)', 'use_false': '(use false)', 'use_seven': '(use other)', 'use_str': '(use other)',
    'use_ident': '(use other)', 'init': 'init', 'crate': 'crate', 'unknown': 'unknown', 'unknown_skip': 'unknown',
}

def item_attrs_src(attrs):
    return ''.join('#[borsh(%s)]\n' % ', '.join(ITEM_KEY_SRC[k] for k in ks) for ks in attrs)
def item_attrs_sx(attrs):
    return '(attrs%s)' % ''.join(' (%s)' % ' '.join(ITEM_KEY_SX[k] for k in ks) for ks in attrs)

class Item:
    def __init__(self, kind, attrs=None, fields=None, variants=None, shape='named', repr_=None, label=''):
        self.kind, self.attrs, self.fields, self.variants = kind, attrs or [], fields or [], variants or []
        self.shape, self.repr, self.label = shape, repr_, label
    def has_init(self):
        return any('init' in ks for ks in self.attrs)
    def src(self):
        s = PRELUDE
        if self.kind == 'union':
            return s + '#[derive(BorshSerialize, BorshDeserialize, BorshSchema)]\npub union U { a: u32, b: f32 }\n'
        s += '#[derive(BorshSerialize, BorshDeserialize, BorshSchema)]\n' + item_attrs_src(self.attrs)
        if self.repr:
            s += '#[repr(%s)]\n' % self.repr
        if self.kind == 'struct':
            if self.shape == 'unit' or not self.fields:
                s += 'pub struct T;\n'
            elif self.shape == 'named':
                s += 'pub struct T { %s }\n' % ', '.join(f.src('f%d' % i) for i, f in enumerate(self.fields))
            else:
                s += 'pub struct T(%s);\n' % ', '.join(f.src() for f in self.fields)
        else:
            vs = []
            for i, (discr, shape, fs) in enumerate(self.variants):
                d = '' if discr is None else (' = %s' % discr[1] if isinstance(discr, tuple) else ' = %d' % discr)
                if shape == 'unit' or not fs:
                    body = ''
                elif shape == 'named':
                    body = ' { %s }' % ', '.join(f.src('f%d' % j) for j, f in enumerate(fs))
                else:
                    body = '(%s)' % ', '.join(f.src() for f in fs)
                vs.append('V%d%s%s' % (i, body, d))
            s += 'pub enum T { %s }\n' % ', '.join(vs)
        if self.has_init():
            s += 'impl T { fn init_hook(&mut self) {} }\n'
        return s
    def sx(self):
        if self.kind == 'union':
            return '(item union)'
        if self.kind == 'struct':
            return '(item struct %s (fields%s))' % (item_attrs_sx(self.attrs), ''.join(' ' + f.sx() for f in self.fields))
        vs = ''.join(' (v %s%s)' % ('_' if d is None else str(d[0] if isinstance(d, tuple) else d), ''.join(' ' + f.sx() for f in fs)) for d, sh, fs in self.variants)
        return '(item enum %s (variants%s))' % (item_attrs_sx(self.attrs), vs)

def legal_field(rnd):
    c = rnd.randrange(8)
    if c == 0: return F([['skip']])
    if c == 1: return F([['ser_with', 'de_with']])
    if c == 2: return F([['bound']])
    if c == 3: return F([['schema_funcs']])
    if c == 4: return F([['ser_with']])
    if c == 5: return F([['skip', 'bound']])
    return F()

def needs_repr(variants):
    return any(d is not None for d, _, _ in variants) and any(sh != 'unit' and fs for _, sh, fs in variants)

def build(seed, thorough):
    rnd = random.Random(seed)
    out = []   # (Item, expected 'accept'|'reject', rule)
    def add(it, exp, rule):
        it.label = rule
        out.append((it, exp, rule))
    n_ctrl = 60 if thorough else 18
    controls = []
    for i in range(n_ctrl):
        if i % 2 == 0:
            nf = rnd.randrange(0, 4)
            it = Item('struct', attrs=rnd.choice([[], [['init']], [['crate']], [['crate', 'init']]]),
                      fields=[legal_field(rnd) for _ in range(nf)], shape=rnd.choice(['named', 'tuple']))
        else:
            nv = rnd.randrange(1, 5)
            use = rnd.choice([None, 'use_true', 'use_false'])
            vs = []
            for j in range(nv):
                sh = rnd.choice(['unit', 'tuple', 'named'])
                fs = [] if sh == 'unit' else [legal_field(rnd) for _ in range(rnd.randrange(1, 3))]
                d = None
                if use is not None and rnd.random() < 0.4:
                    d = rnd.choice([0, 1, 5, 17, 100, 200, 250]) + j
                vs.append((d, sh, fs))
            attrs = [[k for k in [use, rnd.choice([None, 'init'])] if k]]
            attrs = [a for a in attrs if a]
            it = Item('enum', attrs=attrs, variants=vs)
            if needs_repr(vs):
                it.repr = 'u8'
        controls.append(it)
        add(it, 'accept', 'control')
    # large legal discriminants when tags are ordinals; 256 variants; discriminant 255 as last tag
    add(Item('enum', attrs=[['use_false']], variants=[(300, 'unit', []), (None, 'unit', []), (70000, 'unit', [])], repr_='u32'), 'accept', 'control-wide-discriminants-ordinal-tags')
    add(Item('enum', attrs=[['use_false']], variants=[(-3, 'unit', []), (None, 'unit', [])], repr_='i8'), 'accept', 'control-negative-discriminant-ordinal-tags')
    # discriminants written as constant expressions of every operator precedence (finding F9: they are
    # spliced into `<expr> + 1` and `variant_tag == <expr>`)
    for use in ('use_true', 'use_false'):
        add(Item('enum', attrs=[[use]], variants=[((4, '1 << 2'), 'unit', []), (None, 'unit', []), ((2, '6 & 3'), 'unit', []), (None, 'unit', []),
                                                 ((9, '1 | 8'), 'unit', []), (None, 'unit', []), ((20, '17 ^ 5'), 'unit', []), (None, 'unit', []),
                                                 ((30, '(2 + 3) * 6'), 'unit', []), ((32, '10 % 4 + 30'), 'unit', []), (None, 'unit', [])]),
            'accept', 'control-expression-discriminants')
    add(Item('enum', variants=[(None, 'unit', [])] * 256), 'accept', 'control-256-variants')
    add(Item('enum', attrs=[['use_true']], variants=[(None, 'unit', []), (254, 'unit', []), (None, 'unit', [])]), 'accept', 'control-implicit-255')
    add(Item('enum', attrs=[['use_true']], variants=[(255, 'unit', [])]), 'accept', 'control-explicit-255')
    # ---- rule 1: explicit discriminant without a use_discriminant setting, at every position
    for nv in (1, 2, 4):
        for pos in range(nv):
            vs = [(7 + 3 * j if j == pos else None, 'unit', []) for j in range(nv)]
            add(Item('enum', variants=vs), 'reject', 'explicit-discriminant-without-setting')
            add(Item('enum', attrs=[['init']], variants=vs), 'reject', 'explicit-discriminant-without-setting')
    # ---- rule 2/3: use_discriminant on a struct; value other than true/false
    for k in ('use_true', 'use_false'):
        add(Item('struct', attrs=[[k]], fields=[F()]), 'reject', 'use-discriminant-on-struct')
        add(Item('struct', attrs=[['init', k]], fields=[F(), F([['skip']])], shape='tuple'), 'reject', 'use-discriminant-on-struct')
    for k in ('use_seven', 'use_str', 'use_ident'):
        add(Item('enum', attrs=[[k]], variants=[(None, 'unit', []), (None, 'tuple', [F()])]), 'reject', 'use-discriminant-not-bool')
        add(Item('enum', attrs=[[k, 'init']], variants=[(None, 'unit', [])]), 'reject', 'use-discriminant-not-bool')
    # ---- rule 4: a discriminant that does not fit one byte when discriminants are tags
    for nv in (1, 3):
        for pos in range(nv):
            for bad, rp in ((256, 'u16'), (1000, 'u16'), (-1, 'i16'), (70000, 'u32')):
                vs = [(bad if j == pos else None, 'unit', []) for j in range(nv)]
                add(Item('enum', attrs=[['use_true']], variants=vs, repr_=rp), 'reject', 'discriminant-does-not-fit-u8')
    # implicit discriminants running past 255
    add(Item('enum', attrs=[['use_true']], variants=[(None, 'unit', []), (255, 'unit', []), (None, 'unit', [])]), 'reject', 'implicit-discriminant-past-255')
    add(Item('enum', attrs=[['use_true']], variants=[(254, 'unit', []), (None, 'unit', []), (None, 'tuple', [F()])], repr_='u16'), 'reject', 'implicit-discriminant-past-255')
    add(Item('enum', attrs=[['use_true', 'init']], variants=[(250, 'unit', [])] + [(None, 'unit', [])] * 6), 'reject', 'implicit-discriminant-past-255')
    # ---- rule 5: more than 256 variants
    add(Item('enum', variants=[(None, 'unit', [])] * 257), 'reject', 'more-than-256-variants')
    add(Item('enum', attrs=[['use_false']], variants=[(None, 'unit', [])] * 300), 'reject', 'more-than-256-variants')
    # ... also when discriminants are the tags and the first one is not a literal (nothing but the
    # count can refuse these: the values are not known to the derive)
    add(Item('enum', attrs=[['use_true']], variants=[((0, '1 - 1'), 'unit', [])] + [(None, 'unit', [])] * 256, repr_='u16'), 'reject', 'more-than-256-variants')
    add(Item('enum', attrs=[['use_true']], variants=[((0, '0 << 3'), 'unit', [])] + [(None, 'unit', [])] * 299, repr_='u32'), 'reject', 'more-than-256-variants')
    add(Item('enum', attrs=[['use_true', 'init']], variants=[(None, 'unit', [])] * 257, repr_='u16'), 'reject', 'more-than-256-variants')
    # ---- rule 6: skip combined with *_with or a schema override, at every field position
    for conflict in (['skip', 'ser_with'], ['skip', 'de_with'], ['ser_with', 'de_with', 'skip'], ['skip', 'schema_params'], ['skip', 'schema_funcs'], ['schema_funcs', 'skip']):
        for nf in (1, 3):
            for pos in range(nf):
                fs = [F([conflict]) if j == pos else legal_field(rnd) for j in range(nf)]
                add(Item('struct', fields=fs, shape=rnd.choice(['named', 'tuple'])), 'reject', 'skip-conflict')
        add(Item('enum', variants=[(None, 'unit', []), (None, 'named', [F(), F([conflict])])]), 'reject', 'skip-conflict')
    # ---- rule 7: unknown or repeated borsh attributes
    add(Item('struct', attrs=[['unknown']], fields=[F()]), 'reject', 'unknown-item-key')
    add(Item('struct', attrs=[['unknown_skip']], fields=[F()]), 'reject', 'unknown-item-key')
    add(Item('enum', attrs=[['use_false', 'unknown']], variants=[(None, 'unit', [])]), 'reject', 'unknown-item-key')
    add(Item('struct', attrs=[['init'], ['crate']], fields=[F()]), 'reject', 'repeated-borsh-attr-item')
    add(Item('enum', attrs=[['use_true'], ['use_true']], variants=[(None, 'unit', [])]), 'reject', 'repeated-borsh-attr-item')
    for nf in (1, 3):
        for pos in range(nf):
            add(Item('struct', fields=[F([['unknown']]) if j == pos else legal_field(rnd) for j in range(nf)]), 'reject', 'unknown-field-key')
            add(Item('struct', fields=[F([['unknown2']]) if j == pos else F() for j in range(nf)], shape='tuple'), 'reject', 'unknown-field-key')
            add(Item('struct', fields=[F([['skip'], ['bound']]) if j == pos else F() for j in range(nf)]), 'reject', 'repeated-borsh-attr-field')
    add(Item('enum', variants=[(None, 'tuple', [F([['bound'], ['bound']])])]), 'reject', 'repeated-borsh-attr-field')
    # ---- rule 8: unions
    add(Item('union'), 'reject', 'union')
    return out

# ---------------------------------------------------------------------------------------------
# generic items: "the schema derive accepts every struct and enum definition that the serialization
# derives accept, provided the field types themselves have schemas" (C08), and "every definition the
# documentation allows still compiles" (C18)
# ---------------------------------------------------------------------------------------------

GENERIC_PRELUDE = PRELUDE + '''use core::marker::PhantomData;
use std::borrow::Cow;
pub trait Tr { type Assoc; }
impl Tr for u8 { type Assoc = u16; }
'''

GENERIC_ITEMS = [
    ('enum-phantom-variant', 'pub enum T<X> { A(PhantomData<X>), B(u8) }'),
    ('enum-lifetime-unused-in-variant', "pub enum T<'a> { A(Cow<'a, str>), B(u8) }"),
    ('enum-lifetime-unit-variant', "pub enum T<'a> { Text(Cow<'a, str>), Ping }"),
    ('struct-phantom-field', 'pub struct T<X> { a: PhantomData<X>, b: u8 }'),
    ('enum-param-only-through-associated-type', 'pub enum T<K: Tr, V> { A(K::Assoc), B { x: V } }'),
    ('enum-each-param-in-one-variant', 'pub enum T<K, V> { A(K), B(V), C }'),
    ('struct-skipped-generic-field', 'pub struct T<K, V>(K, #[borsh(skip)] V);'),
    ('enum-two-lifetimes-with-bounds', "pub enum T<'a, 'b: 'a, X: 'b + Clone> { A(Cow<'a, str>), B(Cow<'b, [X]>), C }"),
    ('enum-const-generic', 'pub enum T<X, const N: usize> { A([X; N]), B }'),
    ('struct-associated-type-field', 'pub struct T<X: Tr> { a: X::Assoc, b: Vec<X> }'),
    ('enum-skipped-phantom-in-struct-variant', 'pub enum T<X> { A { #[borsh(skip)] x: PhantomData<X>, y: u8 }, B }'),
    ('enum-where-clause', 'pub enum T<K, V> where K: Ord { A(std::collections::BTreeMap<K, V>), B(Vec<V>) }'),
    ('enum-nested-generic-struct', 'pub enum T<X> { A(Option<Vec<X>>), B((X, u8)), C }'),
]

class RawItem:
    """a hand-written item compiled as given (no model line: the model has no generics)"""
    def __init__(self, label, body, derives):
        self.label, self.body, self.derives = label, body, derives
    def src(self):
        return GENERIC_PRELUDE + '#[derive(%s)]\n%s\n' % (', '.join(self.derives), self.body)

def generic_controls():
    """[(label, item with the serialization derives only, item with the schema derive too)]"""
    out = []
    for label, body in GENERIC_ITEMS:
        out.append((label, RawItem(label, body, ['BorshSerialize', 'BorshDeserialize']),
                    RawItem(label, body, ['BorshSerialize', 'BorshDeserialize', 'BorshSchema'])))
    return out

def newest(pattern):
    c = sorted(glob.glob(pattern), key=os.path.getmtime)
    return c[-1] if c else None

def compile_all(items, deps_dir, workdir):
    os.makedirs(workdir, exist_ok=True)
    stub = os.path.join(workdir, 'stub')
    os.makedirs(stub, exist_ok=True)
    with open(os.path.join(stub, 'Cargo.toml'), 'w') as f:
        f.write('[package]\nname = "c18item"\nversion = "0.0.0"\nedition = "2021"\n[dependencies]\nborsh = { path = "/repo/borsh" }\n')
    rlib = newest(os.path.join(deps_dir, 'libborsh-*.rlib'))
    if rlib is None:
        raise RuntimeError('no borsh rlib under ' + deps_dir)
    def one(i):
        it = items[i][0]
        src = os.path.join(workdir, 'item_%d.rs' % i)
        with open(src, 'w') as f:
            f.write(it.src())
        env = dict(os.environ, CARGO_MANIFEST_DIR=stub)
        p = subprocess.run(['rustc', '--edition', '2021', '--crate-type', 'lib', '--crate-name', 'item_%d' % i,
                            '--emit=link', '--error-format=short', '-L', 'dependency=' + deps_dir,
                            '--extern', 'borsh=' + rlib, '-o', os.path.join(workdir, 'item_%d.rlib' % i), src],
                           env=env, stdout=subprocess.PIPE, stderr=subprocess.STDOUT, text=True)
        first = ''
        for line in p.stdout.split('\n'):
            if 'error' in line:
                first = line.strip()[:200]
                break
        for ext in ('.rlib',):
            try:
                os.remove(os.path.join(workdir, 'item_%d%s' % (i, ext)))
            except FileNotFoundError:
                pass
        return ('accept' if p.returncode == 0 else 'reject', first)
    with ThreadPoolExecutor(max_workers=16) as ex:
        return list(ex.map(one, range(len(items))))
