"""Shared machinery of bin/check: proof step, build step, run/model steps, verdict, evidence."""
import fcntl, hashlib, json, os, re, subprocess, sys, time

ROOT = os.path.dirname(os.path.dirname(os.path.abspath(__file__)))
BUILD = os.path.join(ROOT, '.build')
LEAN = os.path.join(ROOT, 'lean')
HARNESS = os.path.join(ROOT, 'harness')
DRIVER = os.path.join(LEAN, '.lake', 'build', 'bin', 'driver')
REPO = '/repo'

CONFIGS = {
    'std-lax': ['io_std'],
    'std-strict': ['io_std', 'strict'],
    'nostd-lax': ['io_nostd'],
    'nostd-strict': ['io_nostd', 'strict'],
}
ALLOWED_AXIOMS = {'propext', 'Classical.choice', 'Quot.sound'}
FORBIDDEN = re.compile(r'\b(sorry|admit|native_decide|bv_decide|implemented_by|unsafe)\b|^axiom\s|maxHeartbeats\s+0')

TRUSTED_BASE = [
    "Lean 4.33.0 kernel (lake build; thorough tier: leanchecker on the theorem modules)",
    "axioms allowed: propext, Classical.choice, Quot.sound (audited with #print axioms on every property theorem)",
    "correspondence check: /verif/harness (Rust, built from /repo's working tree), S-expression printers/parsers, compiled Lean driver, line comparison",
    "modelled, not verified: std::io Read/Write defaults and slice/Vec impls, alloc collections (sort, FromIterator, as_slices), String::from_utf8, rustc layout rule behind size_of::<T>() == 0",
    "platform: x86-64 Linux, rustc 1.95.0",
]

# ---------------------------------------------------------------------------------------------
# property table
# ---------------------------------------------------------------------------------------------

def proj_identity(case, obs):
    return obs

def proj_accept(case, obs):
    """C04 compares acceptance and the returned value, not the text of the refusal"""
    return 'err' if obs.startswith('err ') else obs

def proj_kind_msg(case, obs):
    """C16 compares refusals (kind, message class); accepted values are C04's business"""
    return 'ok' if obs.startswith('ok') else obs

PROPS = {
    'C01': dict(workload='C01', oracle=['C01'], project=proj_identity,
                quick=['std-lax', 'std-strict', 'nostd-lax'], thorough=list(CONFIGS)),
    'C02': dict(workload='C02', oracle=['C02'], project=proj_identity,
                quick=['std-lax'], thorough=['std-lax', 'nostd-lax']),
    'C03': dict(workload='C03', oracle=['C03'], project=proj_identity,
                quick=['std-lax', 'nostd-lax'], thorough=['std-lax', 'nostd-lax']),
    'C04': dict(workload='C04', oracle=['C04'], project=proj_accept,
                quick=['std-lax', 'std-strict', 'nostd-lax'], thorough=list(CONFIGS)),
    'C05': dict(workload='C05', oracle=['C05'], project=proj_identity,
                quick=['std-lax', 'std-strict', 'nostd-lax'], thorough=list(CONFIGS)),
    'C06': dict(workload='C06', oracle=['C06', 'C01', 'C02', 'C04'], project=proj_identity,
                quick=['std-lax', 'std-strict'], thorough=list(CONFIGS)),
    'C18': dict(custom='c18_check'),
    'C07': dict(workload='C07', oracle=['C07'], project=proj_accept,
                quick=['std-lax', 'std-strict', 'nostd-lax'], thorough=list(CONFIGS)),
    'C08': dict(workload='C08', oracle=['C08'], project=proj_identity, derive_accept=True,
                quick=['std-lax'], thorough=['std-lax', 'nostd-lax']),
    'C09': dict(workload='C09', oracle=['C09'], project=proj_identity, spec_ops=('contchk',),
                quick=['std-lax'], thorough=['std-lax', 'std-strict', 'nostd-lax']),
    'C10': dict(workload='C10', oracle=['C10'], project=proj_identity, spec_ops=('contval',),
                quick=['std-lax'], thorough=['std-lax', 'std-strict', 'nostd-lax']),
    'C11': dict(workload='C11', oracle=['C11'], project=proj_identity,
                quick=['std-lax', 'nostd-lax'], thorough=list(CONFIGS)),
    'C12': dict(workload='C12', oracle=['C12'], project=proj_identity,
                quick=['std-lax', 'nostd-lax'], thorough=['std-lax', 'nostd-lax']),
    'C13': dict(workloads=['C02', 'C04', 'C11', 'C12', 'C14', 'IO'], oracle=['C13'], project=proj_identity,
                cross=[('std-lax', 'nostd-lax'), ('std-strict', 'nostd-strict')],
                quick=['std-lax', 'nostd-lax'], thorough=list(CONFIGS)),
    'C14': dict(workload='C14', oracle=['C14'], project=proj_identity,
                quick=['std-lax', 'std-strict'], thorough=list(CONFIGS)),
    'C17': dict(workload='C17', oracle=['C17'], project=proj_identity, spec_ops=('wsverdict',),
                quick=['std-lax', 'std-strict'], thorough=list(CONFIGS)),
    'C15': dict(miri=True, workload='C15', oracle=['C15'], project=proj_identity,
                quick=['std-lax', 'nostd-lax'], thorough=['std-lax', 'nostd-lax']),
    'C16': dict(workload='C16', oracle=['C16'], project=proj_kind_msg,
                quick=['std-lax', 'std-strict', 'nostd-lax'], thorough=list(CONFIGS)),
}

# ---------------------------------------------------------------------------------------------
# helpers
# ---------------------------------------------------------------------------------------------

def c18_check(pid, tier, seed):
    """C18: rustc accept/reject of generated items vs the statement's list vs the model"""
    import c18, shutil
    t0 = time.time()
    proof = proof_step(pid, tier)
    log('%s proof step: %d/%d theorems discharged%s' % (pid, proof['discharged'], proof['obligations'],
                                                      '' if proof['ok'] else ' -- BROKEN'))
    for d in proof['detail']:
        log('  ' + d[:2000])
    cfg = 'std-lax'
    rc, out, binpath = build_harness(cfg)
    known = load_known()
    stats = dict(evaluations=0, disagreements=0, oracle_failures=0, oracle_checks=0, families={}, outcomes={}, per_cfg={})
    violations, samples, distinct, build_errors, knowns = [], [], set(), [], {}
    lib_ok = rc == 0
    if rc != 0:
        build_errors.append((cfg, out[-3000:]))
        # the harness embeds derived items; when one of them stops compiling the crate itself may
        # still build: compile the per-item crates against it so that the item is named
        # (cargo builds the dependencies first: if only the harness crate failed, the borsh rlib and the
        # derive library under target/debug/deps are fresh)
        lib_ok = 'could not compile `harness`' in out and 'could not compile `borsh' not in out
    if lib_ok:
        items = c18.build(seed, tier == 'thorough')
        work = os.path.join(BUILD, 'c18', 'work-%d' % os.getpid())
        try:
            res = c18.compile_all(items, os.path.join(BUILD, 'target-' + cfg, 'debug', 'deps'), work)
        finally:
            pass
        cases = ['derive ' + it.sx() for it, _, _ in items]
        p = subprocess.run([DRIVER], input='\n'.join(cases) + '\n', stdout=subprocess.PIPE, stderr=subprocess.PIPE, text=True)
        model = p.stdout.split('\n')[:-1]
        if p.returncode != 0 or len(model) != len(cases):
            build_errors.append((cfg, 'driver failed on derive lines: ' + p.stderr[-500:]))
        else:
            for (it, exp, rule), (obs, first), c, m in zip(items, res, cases, model):
                stats['evaluations'] += 1
                stats['oracle_checks'] += 1
                stats['families'][rule] = stats['families'].get(rule, 0) + 1
                stats['outcomes'][obs] = stats['outcomes'].get(obs, 0) + 1
                distinct.add(c)
                if len(samples) < 6 and stats['evaluations'] % 19 == 1:
                    samples.append(dict(case=c[:300], rule=rule, rustc=obs, first_diagnostic=first[:160], model=m))
                if m.startswith('bad-case'):
                    build_errors.append((cfg, 'driver rejected: ' + c[:200]))
                    continue
                detail = 'rule %s: the statement says %s, rustc says %s (%s), the model says %s' % (rule, exp, obs, first[:160], m)
                if obs != exp:
                    stats['oracle_failures'] += 1
                    k = known_match(known, pid, cfg, c, detail)
                    if k:
                        knowns.setdefault(k['id'], [k, 0])[1] += 1
                    else:
                        violations.append((cfg, c + '   // source: ' + it.src().split('\n', 12)[-1].replace('\n', ' ')[:400], detail, 'impl-violates-property'))
                elif m.split(' ')[0] != obs:
                    stats['disagreements'] += 1
                    violations.append((cfg, c, detail, 'correspondence-broken'))
        shutil.rmtree(work, ignore_errors=True)
        derive_accept_step(pid, stats, violations, build_errors, known, knowns)
    stats['per_cfg'][cfg] = dict(cases=stats['evaluations'], disagreements=stats['disagreements'],
                                 oracle_failures=stats['oracle_failures'])
    return finish(pid, tier, seed, dict(workload='derive'), proof, stats, distinct, samples, [cfg], t0, violations,
                  knowns, build_errors, extra=dict(programs=stats['evaluations'],
                  explanation='one tiny crate per item, compiled by rustc against the borsh rlib and derive .so cargo built from /repo'))


class Lock:
    def __init__(self, name):
        os.makedirs(BUILD, exist_ok=True)
        self.path = os.path.join(BUILD, 'lock.' + name)
    def __enter__(self):
        self.f = open(self.path, 'w')
        fcntl.flock(self.f, fcntl.LOCK_EX)
        return self
    def __exit__(self, *a):
        fcntl.flock(self.f, fcntl.LOCK_UN)
        self.f.close()

def run(cmd, cwd=None, env=None, timeout=None):
    e = dict(os.environ)
    e.update({'CARGO_NET_OFFLINE': 'true'})
    if env:
        e.update(env)
    try:
        p = subprocess.run(cmd, cwd=cwd, env=e, stdout=subprocess.PIPE, stderr=subprocess.STDOUT,
                           text=True, timeout=timeout)
    except subprocess.TimeoutExpired as ex:
        out = ex.stdout.decode(errors='replace') if isinstance(ex.stdout, bytes) else (ex.stdout or '')
        return 124, out + '\n[timed out after %s s]' % timeout
    return p.returncode, p.stdout

def log(msg):
    print('[check] ' + msg, flush=True)

def strip_lean_comments(src):
    src = re.sub(r'/-.*?-/', '', src, flags=re.S)
    src = re.sub(r'--.*', '', src)
    return src

# ---------------------------------------------------------------------------------------------
# 1. proof step
# ---------------------------------------------------------------------------------------------

def theorem_names(pid):
    path = os.path.join(LEAN, 'BorshModel', 'Theorems', pid + '.lean')
    if not os.path.exists(path):
        return []
    src = strip_lean_comments(open(path).read())
    return re.findall(r'^theorem\s+([A-Za-z0-9_\'.]+)', src, flags=re.M)

def proof_step(pid, tier):
    """returns dict(ok, obligations, discharged, detail, theorems, axioms)"""
    res = dict(ok=True, obligations=0, discharged=0, detail=[], theorems=[], axioms={}, broken=[])
    names = theorem_names(pid)
    res['theorems'] = names
    res['obligations'] = len(names)
    if not names:
        res['ok'] = False
        res['detail'].append('no theorem module for ' + pid)
        res['broken'].append('BorshModel.Theorems.' + pid)
        return res
    with Lock('lean'):
        t0 = time.time()
        rc, out = run(['lake', 'build', 'BorshModel.Theorems.' + pid, 'driver'], cwd=LEAN)
        if rc != 0:
            res['ok'] = False
            res['detail'].append('lake build failed:\n' + out[-3000:])
            # which theorems are named in the errors?
            res['broken'] = sorted(set(re.findall(r'(C\d\d_[A-Za-z0-9_]+)', out))) or ['BorshModel.Theorems.' + pid]
            return res
        # keyword grep over every model / theorem source
        for dirpath, _, files in os.walk(os.path.join(LEAN, 'BorshModel')):
            for f in files:
                if f.endswith('.lean'):
                    src = strip_lean_comments(open(os.path.join(dirpath, f)).read())
                    for i, line in enumerate(src.split('\n')):
                        if FORBIDDEN.search(line):
                            res['ok'] = False
                            res['detail'].append('forbidden keyword in %s: %s' % (f, line.strip()))
        # axiom audit
        adir = os.path.join(BUILD, 'audit')
        os.makedirs(adir, exist_ok=True)
        apath = os.path.join(adir, pid + '.lean')
        with open(apath, 'w') as fh:
            fh.write('import BorshModel.Theorems.%s\n' % pid)
            for n in names:
                fh.write('#print axioms Borsh.%s\n' % n)
        rc, out = run(['lake', 'env', 'lean', apath], cwd=LEAN)
        if rc != 0:
            res['ok'] = False
            res['detail'].append('axiom audit failed:\n' + out[-2000:])
            return res
        flat = re.sub(r'\s+', ' ', out)
        for n in names:
            m = re.search(r"'Borsh\.%s' depends on axioms: \[([^\]]*)\]" % re.escape(n), flat)
            if m:
                axs = [a.strip() for a in m.group(1).split(',') if a.strip()]
            elif re.search(r"'Borsh\.%s' does not depend on any axioms" % re.escape(n), flat):
                axs = []
            else:
                res['ok'] = False
                res['detail'].append('no axiom report for ' + n)
                res['broken'].append(n)
                continue
            res['axioms'][n] = axs
            bad = [a for a in axs if a not in ALLOWED_AXIOMS]
            if bad:
                res['ok'] = False
                res['detail'].append('%s depends on disallowed axioms %s' % (n, bad))
                res['broken'].append(n)
            else:
                res['discharged'] += 1
        if tier == 'thorough':
            rc, out = run(['lake', 'env', 'leanchecker', 'BorshModel.Theorems.' + pid], cwd=LEAN)
            res['leanchecker_rc'] = rc
            if rc != 0:
                res['ok'] = False
                res['detail'].append('leanchecker failed: ' + out[-1500:])
        res['lean_s'] = round(time.time() - t0, 1)
    return res

# ---------------------------------------------------------------------------------------------
# 2. build step
# ---------------------------------------------------------------------------------------------

def build_harness(cfg):
    feats = ','.join(CONFIGS[cfg])
    target = os.path.join(BUILD, 'target-' + cfg)
    with Lock('cargo-' + cfg):
        rc, out = run(['cargo', 'build', '--offline', '--features', feats, '--target-dir', target],
                      cwd=HARNESS)
    return rc, out, os.path.join(target, 'debug', 'harness')

def build_all(cfgs):
    """build configurations in parallel"""
    from concurrent.futures import ThreadPoolExecutor
    with ThreadPoolExecutor(max_workers=len(cfgs)) as ex:
        results = list(ex.map(build_harness, cfgs))
    return dict(zip(cfgs, results))

# ---------------------------------------------------------------------------------------------
# 3/4. run + model
# ---------------------------------------------------------------------------------------------

def run_workload(pid, cfg, binpath, workload, seed, tier, extra_env=None, tag=''):
    outdir = os.path.join(BUILD, 'run', '%s-%s%s' % (pid, cfg, tag))
    os.makedirs(outdir, exist_ok=True)
    for f in ('cases.txt', 'impl.txt', 'oracle.txt', 'model.txt'):
        try:
            os.remove(os.path.join(outdir, f))
        except FileNotFoundError:
            pass
    try:
        os.remove(os.path.join(outdir, 'current.txt'))
    except FileNotFoundError:
        pass
    # a whole workload that does not finish is a failure of the run, not a reason to wait for ever
    rc, out = run([binpath, workload, str(seed), tier, outdir], env=extra_env, timeout=(5400 if tier == 'thorough' else 1500))
    if rc != 0:
        cur = os.path.join(outdir, 'current.txt')
        aborted = open(cur).read().strip() if os.path.exists(cur) else None
        return dict(error='harness exited %d: %s' % (rc, out[-1500:]), outdir=outdir, aborted_case=aborted, rc=rc)
    with open(os.path.join(outdir, 'cases.txt')) as fin, open(os.path.join(outdir, 'model.txt'), 'w') as fout:
        p = subprocess.run([DRIVER], stdin=fin, stdout=fout, stderr=subprocess.PIPE)
    if p.returncode != 0:
        return dict(error='driver exited %d: %s' % (p.returncode, p.stderr.decode()[-1500:]), outdir=outdir)
    return dict(outdir=outdir, harness_log=out.strip())

def read_lines(path):
    with open(path, errors='replace') as f:
        return f.read().split('\n')[:-1]

def family_of(case):
    """coarse type family of a case line, for the distribution report"""
    m = re.match(r'\S+ (?:strict |lax )?(\(\S+ \S+|\S+)', case)
    return m.group(1).lstrip('(') if m else '?'

def outcome_class(obs):
    if obs.startswith('ok'):
        return 'ok'
    m = re.match(r'(enc)?err (\S+) (\(badTag \w+|\(\w+|\w+)', obs)
    if m:
        return 'err:' + m.group(3).lstrip('(')
    return obs.split(' ')[0]

# ---------------------------------------------------------------------------------------------
# known findings
# ---------------------------------------------------------------------------------------------

def load_known():
    path = os.path.join(ROOT, 'known_findings.txt')
    out = []
    if not os.path.exists(path):
        return out
    for line in open(path):
        line = line.strip()
        if not line or line.startswith('#'):
            continue
        if line.startswith('finding:'):
            d = dict(re.findall(r'(\w+)=("(?:[^"\\]|\\.)*"|\S+)', line[len('finding:'):]))
            d = {k: (json.loads(v) if v.startswith('"') else v) for k, v in d.items()}
            out.append(d)
    return out

def known_match(known, pid, cfg, case, detail):
    for k in known:
        if k.get('property') != pid:
            continue
        if 'cfg' in k and not re.search(k['cfg'], cfg):
            continue
        if 'case' in k and not re.search(k['case'], case):
            continue
        if 'detail' in k and not re.search(k['detail'], detail):
            continue
        return k
    return None

# ---------------------------------------------------------------------------------------------
# 5/6. verdict + evidence
# ---------------------------------------------------------------------------------------------

def write_replay(pid, seed, n, payload):
    d = os.path.join(ROOT, 'replays')
    os.makedirs(d, exist_ok=True)
    path = os.path.join(d, '%s-%s-%d.json' % (pid, seed, n))
    with open(path, 'w') as f:
        json.dump(payload, f, indent=1)
    return path

def run_check(pid, tier, only_cfgs=None, quiet=False):
    t0 = time.time()
    seed = int(os.environ.get('VERIF_SEED', '1') or '1')
    if pid not in PROPS:
        print('unknown property ' + pid)
        return 2
    spec = PROPS[pid]
    custom = spec.get('custom')
    if custom:
        return globals()[custom](pid, tier, seed)
    proof = proof_step(pid, tier)
    log('%s proof step: %d/%d theorems discharged%s' % (pid, proof['discharged'], proof['obligations'],
                                                      '' if proof['ok'] else ' -- BROKEN'))
    for d in proof['detail']:
        log('  ' + d[:2000])
    cfgs = only_cfgs or spec[tier]
    builds = build_all(cfgs)
    known = load_known()
    stats = dict(evaluations=0, disagreements=0, oracle_failures=0, oracle_checks=0,
                 families={}, outcomes={}, per_cfg={})
    distinct = set()
    samples = []
    violations = []      # (cfg, case, detail, kind)
    knowns = {}
    build_errors = []
    transcripts = {}
    runs = []
    # thorough tier: the same workload under several seeds (VERIF_THOROUGH_SEEDS, default 4)
    nseeds = int(os.environ.get('VERIF_THOROUGH_SEEDS', '4') or '4') if tier == 'thorough' else 1
    seeds = [seed + 7919 * i for i in range(max(1, nseeds))]
    for cfg in cfgs:
        rc, out, binpath = builds[cfg]
        if rc != 0:
            build_errors.append((cfg, out[-3000:]))
            continue
        for wl in spec.get('workloads', [spec.get('workload')]):
            for s_i in seeds:
                runs.append((cfg, binpath, wl, s_i))
    for cfg0, binpath, wl, s_i in runs:
        # the label of a run with a derived seed carries it, so that a replay finds the same workload
        cfg = cfg0 if s_i == seed else '%s seed=%d' % (cfg0, s_i)
        r = run_workload(pid, cfg0, binpath, wl, s_i, tier, tag='-' + wl)
        if 'error' in r:
            if r.get('aborted_case'):
                # the process died (abort / stack overflow / allocation failure) inside the real code
                violations.append((cfg, r['aborted_case'], 'the process aborted (exit %s) while decoding this input' % r.get('rc'),
                                   'impl-violates-property'))
                stats['oracle_failures'] += 1
            else:
                build_errors.append((cfg, r['error']))
            continue
        od = r['outdir']
        cases = read_lines(os.path.join(od, 'cases.txt'))
        impl = read_lines(os.path.join(od, 'impl.txt'))
        model = read_lines(os.path.join(od, 'model.txt'))
        if not (len(cases) == len(impl) == len(model)):
            build_errors.append((cfg, 'transcript lengths differ: %d cases, %d impl, %d model' % (len(cases), len(impl), len(model))))
            continue
        m = re.search(r'oracle_checks=(\d+)', r['harness_log'])
        stats['oracle_checks'] += int(m.group(1)) if m else 0
        pc = stats['per_cfg'].setdefault(cfg0, dict(cases=0, disagreements=0, oracle_failures=0))
        pc['cases'] += len(cases)
        if spec.get('cross'):
            transcripts.setdefault((cfg0, wl), {}).update(zip(cases, impl))
        proj = spec['project']
        ndis = 0
        for c, a, b in zip(cases, impl, model):
            stats['evaluations'] += 1
            fam = family_of(c)
            stats['families'][fam] = stats['families'].get(fam, 0) + 1
            oc = outcome_class(a)
            stats['outcomes'][oc] = stats['outcomes'].get(oc, 0) + 1
            if len(a) > 4:
                distinct.add(hashlib.blake2b(c.encode(), digest_size=8).digest())
            if len(samples) < 6 and len(c) < 200 and stats['evaluations'] % 997 == 1:
                samples.append(dict(cfg=cfg, case=c, impl=a, model=b))
            if b.startswith('bad-case'):
                build_errors.append((cfg, 'driver rejected a case line: %s -> %s' % (c[:300], b)))
                continue
            pa, pb = proj(c, a), proj(c, b)
            if pa != pb:
                ndis += 1
                detail = 'impl: %s | model: %s' % (a[:400], b[:400])
                k = known_match(known, pid, cfg, c, 'disagree ' + detail)
                if k:
                    knowns.setdefault(k['id'], [k, 0])[1] += 1
                elif c.split(' ', 1)[0] in spec.get('spec_ops', ('spec',)) or c.startswith('spec '):
                    # the model side of this line is the specification itself
                    violations.append((cfg, c, detail, 'impl-violates-property'))
                else:
                    violations.append((cfg, c, detail, 'correspondence-broken'))
        stats['disagreements'] += ndis
        pc['disagreements'] += ndis
        nor = 0
        for line in read_lines(os.path.join(od, 'oracle.txt')):
            parts = line.split('\t')
            if len(parts) < 3 or parts[0] not in spec['oracle']:
                continue
            nor += 1
            k = known_match(known, pid, cfg, parts[1], parts[2])
            if k:
                knowns.setdefault(k['id'], [k, 0])[1] += 1
            else:
                violations.append((cfg, parts[1], parts[2], 'impl-violates-property'))
        stats['oracle_failures'] += nor
        pc['oracle_failures'] += nor
    # ---- cross-configuration comparison (C13): the same case under std and under no_std
    if spec.get('cross'):
        ncross = 0
        for (a, b) in spec['cross']:
            if a not in cfgs or b not in cfgs:
                continue
            for wl in spec.get('workloads', []):
                ta, tb = transcripts.get((a, wl)), transcripts.get((b, wl))
                if ta is None or tb is None:
                    continue
                for c, oa in ta.items():
                    cb = c.replace(' std ', ' nostd ', 1) if wl == 'IO' else c
                    ob = tb.get(cb)
                    if ob is None:
                        continue
                    ncross += 1
                    if oa != ob:
                        detail = '%s: %s | %s: %s' % (a, oa[:300], b, ob[:300])
                        k = known_match(known, pid, a + '/' + b, c, detail)
                        if k:
                            knowns.setdefault(k['id'], [k, 0])[1] += 1
                        else:
                            violations.append((a + ' vs ' + b, c, detail, 'impl-violates-property'))
                            stats['oracle_failures'] += 1
        stats['cross_compared'] = ncross
        stats['oracle_checks'] += ncross
        # raw message texts (not classes) of both builds on the malformed-input workload
        for (a, b) in spec['cross']:
            if a not in cfgs or b not in cfgs or builds[a][0] != 0 or builds[b][0] != 0:
                continue
            raw = {}
            for cfg in (a, b):
                # malformed input, and scripted reader / writer failures (errors built from a bare
                # kind display the kind's own description: the shim's table against std's)
                for rwl in ('C04', 'C11', 'C12'):
                    r = run_workload(pid, cfg, builds[cfg][2], rwl, seed, tier, extra_env={'HARNESS_RAW_MSG': '1'}, tag='-raw-' + rwl)
                    if 'error' in r:
                        build_errors.append((cfg, r['error']))
                        continue
                    raw.setdefault(cfg, {}).update(zip(read_lines(os.path.join(r['outdir'], 'cases.txt')),
                                                       read_lines(os.path.join(r['outdir'], 'impl.txt'))))
            if len(raw) == 2:
                nraw = 0
                for c, oa in raw[a].items():
                    ob = raw[b].get(c)
                    if ob is None:
                        continue
                    nraw += 1
                    if oa != ob:
                        violations.append((a + ' vs ' + b, c, 'message text differs: %s | %s' % (oa[:300], ob[:300]),
                                           'impl-violates-property'))
                        stats['oracle_failures'] += 1
                stats['raw_message_cases_compared'] = stats.get('raw_message_cases_compared', 0) + nraw
                stats['oracle_checks'] += nraw
    if spec.get('derive_accept') and 'std-lax' in cfgs and builds['std-lax'][0] == 0:
        derive_accept_step(pid, stats, violations, build_errors, known, knowns)
    if spec.get('miri'):
        miri_step(pid, stats, violations, build_errors)
    return finish(pid, tier, seed, spec, proof, stats, distinct, samples, cfgs, t0, violations, knowns, build_errors,
                  builds=builds, known=known)

def derive_accept_step(pid, stats, violations, build_errors, known, knowns):
    """C08 (last sentence) / C18 (last sentence): generic structs and enums - type parameters behind
    PhantomData or an associated type, lifetimes a variant does not use, const parameters, where clauses -
    compiled once with the serialization derives only and once with the schema derive added; whatever
    the first accepts the second has to accept.  rustc against the library cargo built from /repo."""
    import c18, shutil
    cfg = 'std-lax'
    work = os.path.join(BUILD, 'c18', 'generic-%s-%d' % (pid, os.getpid()))
    ctrls = c18.generic_controls()
    items = []
    for label, ser_only, with_schema in ctrls:
        items.append((ser_only, 'accept', label))
        items.append((with_schema, 'accept', label))
    try:
        res = c18.compile_all(items, os.path.join(BUILD, 'target-' + cfg, 'debug', 'deps'), work)
    except Exception as e:
        build_errors.append((cfg, 'generic derive controls: %s' % e))
        return
    finally:
        shutil.rmtree(work, ignore_errors=True)
    stats['generic_derive_items'] = len(ctrls)
    for i, (label, ser_only, with_schema) in enumerate(ctrls):
        (o1, d1), (o2, d2) = res[2 * i], res[2 * i + 1]
        stats['oracle_checks'] += 1
        case = 'derive-generic %s :: %s' % (label, ser_only.body)
        bad = None
        if o1 != 'accept':
            # the serialization derives themselves refuse a documented shape (C18's last sentence)
            if pid == 'C18':
                bad = 'BorshSerialize / BorshDeserialize do not compile for this item: %s' % d1
        elif o2 != 'accept':
            bad = 'the serialization derives accept this item, adding BorshSchema does not compile: %s' % d2
        if bad:
            stats['oracle_failures'] += 1
            k = known_match(known, pid, cfg, case, bad)
            if k:
                knowns.setdefault(k['id'], [k, 0])[1] += 1
            else:
                violations.append((cfg, case, bad, 'impl-violates-property'))

def miri_step(pid, stats, violations, build_errors):
    """C15: the real `[T; N]` decoder under Miri (every N in a list, every failure position, error and
    panic mode, zero-sized elements, truncated input).  Supports the correspondence only: Miri explores the
    sampled executions for undefined behaviour and leaks; it is not a proof."""
    for crate, target in (('miri', 'target-miri'), ('miri-nostd', 'target-miri-nostd')):
        env = dict(os.environ, CARGO_TARGET_DIR=os.path.join(ROOT, '.build', target), CARGO_NET_OFFLINE='true')
        t = time.time()
        rc, out = run(['cargo', '+nightly', 'miri', 'run'], cwd=os.path.join(ROOT, crate), env=env, timeout=1800)
        cases = [l for l in out.splitlines() if l.startswith('case ')]
        stats[crate] = dict(exit=rc, executions=len(cases), wall_s=round(time.time() - t, 1))
        stats['oracle_checks'] += len(cases)
        if rc == 0 and 'guard-miri: ok' in out:
            log('%s %s: %d executions of the array decoder, no undefined behaviour, no leak' % (pid, crate, len(cases)))
            continue
        if 'Undefined Behavior' in out or 'panicked' in out or 'memory leaked' in out or 'assertion' in out:
            last = cases[-1] if cases else 'case ?'
            m = re.search(r'error: (Undefined Behavior[^\n]*|memory leaked[^\n]*)', out)
            why = m.group(1) if m else (out.strip().splitlines() or ['?'])[-1]
            violations.append((crate, 'guard ' + last, 'under Miri: %s' % why[:400], 'impl-violates-property'))
            stats['oracle_failures'] += 1
        else:
            build_errors.append((crate, out[-2000:]))

def finish(pid, tier, seed, spec, proof, stats, distinct, samples, cfgs, t0, violations, knowns, build_errors,
           builds=None, known=None, extra=None):
    # ---- verdict
    exit_code = 0
    for kid, (k, n) in sorted(knowns.items()):
        print('KNOWN-FINDING: property=%s %s (%d cases this run)' % (pid, k.get('desc', kid), n), flush=True)
    printed = 0
    if build_errors:
        for cfg, msg in build_errors[:3]:
            log('%s: %s' % (cfg, msg))
        path = write_replay(pid, seed, 0, dict(property=pid, kind='correspondence-broken',
                            what='harness build or run failed', errors=build_errors[:5]))
        print('VIOLATION property=%s replay=%s no-failing-input-found' % (pid, path), flush=True)
        exit_code = 1
    real = [v for v in violations if v[3] == 'impl-violates-property']
    corr = [v for v in violations if v[3] == 'correspondence-broken']
    if real:
        # the smallest failing inputs first: selection is the shrinker
        real.sort(key=lambda v: len(v[1]))
        seen = set()
        for cfg, case, detail, kind in real:
            key = (family_of(case), detail.split(' ')[0])
            if key in seen:
                continue
            seen.add(key)
            printed += 1
            path = write_replay(pid, seed, printed, dict(
                property=pid, kind=kind, cfg=cfg, seed=seed, tier=tier, case_line=case, observed=detail,
                how_to_replay='bin/check %s replay <this file>' % pid,
                other_failing_cases=len(real)))
            print('VIOLATION property=%s replay=%s' % (pid, path), flush=True)
            if printed >= 5:
                break
        exit_code = 1
    elif corr or not proof['ok']:
        # the tie or a proof is broken but no input violating the property itself was found among
        # the cases: widen the search on the implementation before giving up
        found = None
        if corr and tier == 'quick' and builds is not None and not os.environ.get('VERIF_NO_SEARCH'):
            found = targeted_search(pid, spec, cfgs, builds, seed, known)
        if found:
            cfg, case, detail = found
            path = write_replay(pid, seed, 1, dict(
                property=pid, kind='impl-violates-property', cfg=cfg, seed=seed, tier='thorough',
                case_line=case, observed=detail, found_by='targeted search after a broken correspondence',
                how_to_replay='bin/check %s replay <this file>' % pid))
            print('VIOLATION property=%s replay=%s' % (pid, path), flush=True)
        else:
            corr.sort(key=lambda v: len(v[1]))
            payload = dict(property=pid, seed=seed, tier=tier)
            if corr:
                cfg, case, detail, kind = corr[0]
                payload.update(kind='correspondence-broken', cfg=cfg, case_line=case, observed=detail,
                               correspondence='model (lean/BorshModel) vs /repo on workload %s' % (spec.get('workload') or spec.get('workloads')),
                               disagreeing_cases=len(corr),
                               note='the property itself was not seen to fail on any explored input; '
                                    'the model the theorems are about no longer describes the code')
            if not proof['ok']:
                payload.update(theorem_broken=proof['broken'], proof_detail=proof['detail'][:3])
                payload.setdefault('kind', 'theorem-broken')
            path = write_replay(pid, seed, 1, payload)
            print('VIOLATION property=%s replay=%s no-failing-input-found' % (pid, path), flush=True)
        exit_code = 1
    # ---- evidence
    write_evidence(pid, tier, seed, spec, proof, stats, distinct, samples, cfgs, t0,
                   n_viol=(1 if exit_code else 0), knowns=knowns, extra=extra)
    log('%s %s: %d cases, %d disagreements, %d oracle failures, %d known-finding cases, exit %d, %.1fs' % (
        pid, tier, stats['evaluations'], stats['disagreements'], stats['oracle_failures'],
        sum(n for _, n in knowns.values()), exit_code, time.time() - t0))
    return exit_code

def targeted_search(pid, spec, cfgs, builds, seed, known):
    """rerun the workload at the thorough budget with fresh seeds, looking for an input on which the
    property itself fails on the real code"""
    for s in (seed + 1000, seed + 2000):
        for cfg in cfgs:
            rc, out, binpath = builds[cfg]
            if rc != 0:
                continue
            r = run_workload(pid, cfg, binpath, spec.get('workload') or spec['workloads'][0], s, 'thorough', tag='-search')
            if 'error' in r:
                continue
            best = None
            for line in read_lines(os.path.join(r['outdir'], 'oracle.txt')):
                parts = line.split('\t')
                if len(parts) >= 3 and parts[0] in spec['oracle'] and not known_match(known, pid, cfg, parts[1], parts[2]):
                    if best is None or len(parts[1]) < len(best[1]):
                        best = ('%s seed=%d' % (cfg, s), parts[1], parts[2])
            if best:
                return best
    return None

def write_evidence(pid, tier, seed, spec, proof, stats, distinct, samples, cfgs, t0, n_viol, knowns,
                   extra=None):
    os.makedirs(os.path.join(ROOT, 'evidence'), exist_ok=True)
    cov = dict(
        obligations=max(proof['obligations'], 1),
        discharged=proof['discharged'],
        checker_cmd='cd lean && lake build BorshModel.Theorems.%s && lake env lean <audit: #print axioms of every theorem>' % pid
                    + ('; lake env leanchecker BorshModel.Theorems.%s' % pid if tier == 'thorough' else ''),
        trusted_base=TRUSTED_BASE,
        theorems=proof['theorems'],
        axioms=proof['axioms'],
        evaluations=stats['evaluations'],
        distinct_nontrivial=len(distinct),
        rule='cases are generated type-directed from the harness catalogue (boundary-biased values, '
             'mutations of valid encodings, random strings); a case counts as non-trivial when its '
             'observation is longer than a bare verdict; distinct = distinct case lines (hashed)',
        samples=samples or [dict(note='no sample retained')],
        configurations=cfgs,
        disagreements_checked=stats['disagreements'],
        oracle_checks=stats['oracle_checks'],
        oracle_failures=stats['oracle_failures'],
        per_configuration=stats['per_cfg'],
        type_family_histogram=dict(sorted(stats['families'].items(), key=lambda kv: -kv[1])[:40]),
        outcome_histogram=dict(sorted(stats['outcomes'].items(), key=lambda kv: -kv[1])[:40]),
        known_findings_seen={k: n for k, (_, n) in knowns.items()},
        exhaustive=False,
    )
    if extra:
        cov.update(extra)
    ev = dict(
        property_id=pid, tier=tier, seed=seed, level='proof', coverage=cov,
        assumptions=[
            'the theorems are about the Lean model (lean/BorshModel); the tie to /repo is the differential '
            'run above, which samples',
            'std / alloc / rustc behaviour listed in the trusted base is described, not verified',
        ],
        wall_s=round(time.time() - t0, 1),
        violations=n_viol,
    )
    with open(os.path.join(ROOT, 'evidence', pid + '.json'), 'w') as f:
        json.dump(ev, f, indent=1)

# ---------------------------------------------------------------------------------------------
# replay
# ---------------------------------------------------------------------------------------------

def replay(pid, path):
    rp = json.load(open(path))
    case = rp.get('case_line')
    cfg = rp.get('cfg')
    if not case or not cfg:
        print('replay file names no concrete case: ' + json.dumps(rp)[:500])
        return 1
    spec = PROPS[pid]
    if cfg == 'miri':
        stats, viol, berr = dict(oracle_checks=0, oracle_failures=0), [], []
        miri_step(pid, stats, viol, berr)
        for v in viol:
            print('case : ' + v[1])
            print('impl : ' + v[2])
        for b in berr:
            print(b[1])
        if viol or berr:
            print('VIOLATION property=%s replay=%s' % (pid, path))
            return 1
        print('the recorded case no longer fails')
        return 0
    rc, out, binpath = build_harness(cfg.split(' ')[0])
    if rc != 0:
        print(out[-2000:])
        return 1
    with Lock('lean'):
        run(['lake', 'build', 'driver'], cwd=LEAN)
    wl = rp.get('workload') or spec.get('workload') or spec['workloads'][0]
    mseed = re.search(r'seed=(\d+)', cfg)
    r = run_workload(pid, cfg.split(' ')[0], binpath, wl, int(mseed.group(1)) if mseed else rp.get('seed', 1),
                     rp.get('tier', 'quick'), tag='-replay')
    if 'error' in r:
        print(r['error'])
        return 1
    od = r['outdir']
    hit = False
    for c, a, b in zip(read_lines(os.path.join(od, 'cases.txt')), read_lines(os.path.join(od, 'impl.txt')),
                       read_lines(os.path.join(od, 'model.txt'))):
        if c == case:
            print('case : ' + c[:1000])
            print('impl : ' + a[:1000])
            print('model: ' + b[:1000])
            hit = True
            break
    fails = [l for l in read_lines(os.path.join(od, 'oracle.txt')) if l.split('\t')[1:2] == [case]]
    for l in fails:
        print('oracle: ' + l[:1500])
    if not hit:
        print('case line not regenerated on this tree (generator output changed)')
    if fails:
        print('VIOLATION property=%s replay=%s' % (pid, path))
        return 1
    print('the recorded case no longer fails')
    return 0
