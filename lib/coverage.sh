#!/bin/bash
# Source-line coverage of /repo/borsh/src by the correspondence workloads (a measure of the tie, not a
# check): builds the harness with -C instrument-coverage (nightly, llvm-tools), runs every quick
# workload, prints llvm-cov's per-file report and the lines of borsh never executed.
# usage: lib/coverage.sh [io_std,strict | io_nostd]      scratch: /tmp/verif-cov (removed at the end)
set -u
feats=${1:-io_std,strict}
B=$(rustc +nightly --print sysroot)/lib/rustlib/x86_64-unknown-linux-gnu/bin
W=/tmp/verif-cov; rm -rf $W; mkdir -p $W
cd "$(dirname "$0")/../harness" || exit 2
RUSTFLAGS="-C instrument-coverage" CARGO_NET_OFFLINE=true cargo +nightly build --offline --features "$feats" --target-dir $W/target >/dev/null 2>&1 || { echo build failed; exit 1; }
wl="C01 C02 C03 C04 C05 C06 C07 C08 C09 C10 C11 C12 C14 C15 C16 C17 IO"
case "$feats" in *nostd*) wl="C01 C02 C03 C04 C05 C06 C07 C11 C12 C14 C15 C16 IO";; esac
( cd $W; for w in $wl; do LLVM_PROFILE_FILE=$W/prof/$w-%p.profraw $W/target/debug/harness $w 1 quick $W/out/$w >/dev/null 2>&1; done )
$B/llvm-profdata merge -sparse $W/prof/*.profraw -o $W/all.profdata
$B/llvm-cov report $W/target/debug/harness -instr-profile=$W/all.profdata --ignore-filename-regex='(registry|rustc|rustup|/verif/)' 2>/dev/null | cut -c1-48,100-200
echo "--- lines of borsh never executed by the workloads:"
$B/llvm-cov show $W/target/debug/harness -instr-profile=$W/all.profdata --ignore-filename-regex='(registry|rustc|rustup|/verif/)' --show-line-counts-or-regions 2>/dev/null | grep -E "^(/repo|repo)|^\s+[0-9]+\|\s+0\|" | grep -B1 -E "^\s+[0-9]+\|\s+0\|" | cut -c1-160
rm -rf $W
