#!/bin/bash
# usage: harmlessrun.sh <id>...  applies /verif/harmless/<id>/patch.diff (a behaviour-preserving change of
# /repo), runs every quick check, reports any alarm, and always restores /repo afterwards.
cd /verif
# evidence files describe the unchanged tree: keep them out of these runs
bk=$(mktemp -d /verif/.build/evidence-bk.XXXXXX); cp -a evidence/. $bk/
trap 'cp -a $bk/. /verif/evidence/; rm -rf $bk' EXIT
for id in "$@"; do
  if ! git -C /repo diff --quiet; then echo "/repo is dirty, refusing"; exit 2; fi
  git -C /repo apply /verif/harmless/$id/patch.diff || { echo "$id: patch does not apply"; continue; }
  for p in C01 C02 C03 C04 C05 C06 C07 C08 C09 C10 C11 C12 C13 C14 C15 C16 C17 C18; do
    out=$(VERIF_NO_SEARCH=1 bin/check $p quick 2>&1); rc=$?
    echo "--- $id vs $p: exit $rc  $(echo "$out" | grep -E 'cases,' | sed 's/.*quick: //' | cut -c1-90)"
    if [ $rc -ne 0 ]; then echo "$out" | grep -E "VIOLATION|BROKEN|error" | cut -c1-240 | head -5; fi
  done
  git -C /repo checkout -- .
done
