#!/usr/bin/env python3
"""Regenerates /verif/MANIFEST.json from the table below (kept next to the check table so that
the two cannot drift).  Run after claiming or un-claiming a property."""
import json, os, sys

ROOT = os.path.dirname(os.path.dirname(os.path.abspath(__file__)))

LEVEL_NOTE = ("Trusted: Lean 4.33 kernel; axioms limited to propext/Classical.choice/Quot.sound (audited per theorem "
              "on every run, no sorry/admit/native_decide/bv_decide); the correspondence harness (Rust, built from "
              "/repo's working tree), the S-expression protocol and the compiled Lean driver; std/alloc/rustc "
              "behaviour that borsh calls is described in the model, not verified (DESIGN.md §7). The theorems are "
              "about the Lean model; the model is tied to /repo by the differential run, which samples.")

CLAIMS = {
    'C01': dict(
        text=("Kernel-checked theorem C01_roundtrip_partial / C01_roundtrip_stream_partial: for every well-formed "
              "type of the modelled universe whose set/map/index-set keys are key types ('keysOk': sets, maps and index "
              "collections included), every value and both key-order modes, decoding "
              "the encoding (followed by anything) returns the canonical value and leaves exactly what followed; "
              "C01_bulk_loop_exact covers the chunked byte-vector loop for every length. The model is tied to /repo "
              "on every run by a differential run through all six entry points over ~210 catalogue types "
              "(partial only in that keys which contain hash collections, deques, skipped fields or init hooks are outside the theorem - "
              "ordered sets and maps of key types are key types; C01_skipped_key_field_boundary is the kernel-evaluated, replayed witness "
              "that the exclusion of skipped fields inside keys is necessary). Recursive and generic user types are catalogue types (mu-terms unfolded by the driver). Supporting laws proved for all representations: Val.cmp is a total "
              "order; sort of distinct keys is strictly ascending; ascending lists are fixed points of sort and collect."),
        technique="Lean 4 proof by structural induction over a nested type universe + differential correspondence check",
        design_ref="§5 C01"),
    'C05': dict(
        text=("Kernel-checked theorems: C05_extension (the slice decoder never looks ahead; every type incl. sets "
              "and maps, both modes), C05_exact_consumption_partial, C05_stream_partial (back-to-back values read back "
              "in order), C05_trailing_rejected_partial, C05_prefix_rejected_partial (from extension + exact "
              "consumption, no bijectivity needed) for every keysOk type (keyed collections included); differential run of deserialize with tails, every "
              "truncation point, and heterogeneous streams of up to 6 values against the model. The workload also raises the element count of top-level sequences/strings beyond what follows (prefixes of encodings too large to build, incl. counts whose byte size wraps 2^32)."),
        technique="Lean 4 proof (prefix-extension lemma by induction over the universe; corollaries) + differential correspondence check",
        design_ref="§5 C05"),
}

CLAIMS['C16'] = dict(
    text=("Kernel-checked theorems C16_kind / C16_kind_deserialize: for every type of the universe, every byte "
          "string and both key-order modes a failing decode from a slice has kind InvalidData (by induction over "
          "the universe; the same induction shows the decoder never panics); C16_zst* (zero-sized collections give "
          "the public message on any input), C16_leftover_partial, C16_truncated_block. Differential run over "
          "truncations, single-byte corruptions, 0xFFFFFFFF windows, entry swaps and random strings of every "
          "catalogue type (incl. bson/ascii/bytes/indexmap impls) comparing (kind, message class). C16_truncated_partial: every proper prefix of the encoding of any value of a keysOk type is rejected by deserialize and from_slice with InvalidData 'Unexpected length of input' and nothing else (via C16_error_stable: any other error is stable under extension of the input, every type)."),
    technique="Lean 4 proof (error-discipline predicate by induction over the universe) + differential correspondence check",
    design_ref="§5 C16")

CLAIMS['C02'] = dict(
    text=("Kernel-checked theorem C02_refines_spec: for every type of the universe (sets, maps, deques, wrappers, "
          "derived items) and every value, to_vec of the model equals Spec.enc (a separate function written from the "
          "specification text: LE integers/floats, 0/1 tags, u32 counts, no count for arrays/tuples, fields in order, "
          "u8 variant tag, ascending keys) or refuses in the same class; C02_nan_refused, C02_too_long_refused. "
          "Differential run: real to_vec bytes are compared with both the model and Spec.enc evaluated by the driver, "
          "so a symmetric codec change that survives every round-trip test is seen."),
    technique="Lean 4 refinement proof (implementation model refines specification encoder, induction over the universe) + differential check against Spec.enc",
    design_ref="§5 C02")

CLAIMS['C04'] = dict(
    text=("Kernel-checked theorems: C04_valid_accepted_partial (every valid encoding is accepted with the specified "
          "value; every keysOk type incl. sets, maps, index collections, both modes), C04_unknown_tag / C04_bool_tag (no tag outside the variant tags is ever accepted, any "
          "sum), C04_nan_rejected, C04_zero_rejected, C04_utf8_rejected, C04_strict_rejects_unsorted / "
          "C04_lax_accepts_unsorted (the mode's only effect on sets), C04_indexSet_counterexample (finding F6, "
          "kernel-decided and replayed on the real code, listed as known finding). Differential run of from_slice / "
          "try_from_slice on truncations, tag and byte corruptions, 0xFFFFFFFF windows, swapped/duplicated entries and "
          "random strings in both modes, with re-encode oracles (strict: accepted bytes re-encode to themselves). "
          "Converse, proved by induction over the universe (reverse_all): C04_deserialize_reencodes / C04_accepted_reencodes "
          "(strict mode: every accepted byte string is the encoding of the well-typed value returned), "
          "C04_accepts_iff_valid (accepted iff it is the encoding of some value), C04_strict_bijection, "
          "C04_decode_injective - for every well-formed type without index collections (F6) and init hooks. "
          "Modes: C04_strict_accept_implies_lax (lax accepts whatever strict accepts, same value, every type) and "
          "C04_mode_irrelevant_without_order (on types without a hash/ordered set or map the two decoders are the "
          "same function), so the inputs lax mode adds can only involve such a collection. C04_modes_differ_only_by_key_order / C04_lax_extra_inputs (every type, every byte string, any reader): strict mode answers exactly as lax mode or with the key-order rejection, so the only inputs lax mode adds are unsorted or repeated entries. C04_lax_set_is_collected_sequence / C04_lax_map_is_collected_sequence (any reader): without strict ordering a set / map is read exactly as the sequence of its elements / (K, V) pairs and then collected - same acceptance, same bytes consumed; workload lax_collections feeds sequence-writer encodings with repeats, disorder and a tail to the set and map decoders in both modes."),
    technique="Lean 4 proof (acceptance/rejection lemmas over the universe, kernel-decided counterexample) + differential check with re-encode oracle",
    design_ref="§5 C04")

CLAIMS['C03'] = dict(
    text=("Kernel-checked theorems: C03_wrappers(_nested) (every transparent wrapper is invisible on the wire), "
          "C03_fast_path / C03_fast_path_toVec (the u8 bulk path delivers the bytes of the per-element path, for every "
          "length), C03_deque_split (any ring-buffer split encodes like the contiguous deque), C03_seq_kinds "
          "(Vec/[T]/Box<[T]>/Cow/Rc slices agree). Differential run: for every catalogue type two representations of "
          "one logical value (same value seed, different insertion order / reserve / shrink / rotation / hasher state; "
          "three BuildHashers incl. an all-collide one) are encoded; the observed iteration order is given to the "
          "model, which sorts itself; oracle: identical bytes, repeated serialization identical, seven wrappers "
          "identical; c03_fastpath: for every length 0..=300 and the strategy boundaries the bulk write of "
          "Vec<u8>/[u8]/Box/Cow/Rc/String/str equals the element loop and VecDeque/LinkedList/Vec<i8> of the same "
          "bytes. C03_hashSet_order_irrelevant / C03_hashMap_order_irrelevant / C03_hashSet_eq_btreeSet: the bytes of "
          "a hash collection do not depend on iteration order (sort of distinct keys is unique: sa_unique, from the "
          "total-order laws of Val.cmp). General statement, whole universe (C03_canonical / C03_canonical_bytes): two representations related by Eqv - same members of every hash set / hash map in any iteration order, any ring-buffer split of every deque, anything in skipped fields, at any nesting depth - serialize to identical bytes or are refused for the same reason; C03_eqv_refl (Eqv is inhabited exactly where the typing is)."),
    technique="Lean 4 proof (wrapper/fast-path/deque lemmas via the spec refinement) + differential check over representation pairs",
    design_ref="§5 C03")

CLAIMS['C08'] = dict(
    text=("Model schemaOf (the built-in BorshSchema impls and the schema derive, driven by the same type description "
          "as the codec model) with kernel-checked theorems C08_int_widths / C08_float_widths / "
          "C08_int_size_matches_encoder (schema primitive sizes equal the encoder's widths, every kind), "
          "C08_seq_definition / C08_array_definition (length width 4 + full u32 range vs width 0 + single length), "
          "C08_struct_fields_skip, C08_closed_examples (closedness and self-validation, kernel-evaluated on nested "
          "types). Tie: for every catalogue type with a schema the *bytes of the real container* are compared with "
          "the bytes of schemaOf(type description), so declarations, definitions, field/variant names, tag values "
          "and widths are all compared (BorshSchemaContainer, Definition and Fields themselves included); oracles: no "
          "missing definition, container round-trips, and a reader that knows only the schema parses every real "
          "encoding of every schema-catalogue type exactly to its end; the same walk is done by the specification's "
          "reader sdec in the Lean driver (sdec lines), so the oracle and the theorem speak of one reader. Proved by "
          "induction over the universe: C08_describes_of_bound (if every declaration the type refers to is bound as "
          "the impls/derive intend - Bnd - then sdec parses the encoding of EVERY value exactly: built-ins, derived "
          "structs/enums with skips and discriminants, IpAddr), C08_builtin_bound (for_type binds everything as "
          "intended for every composition of built-in impls: add_definition as a sorted-map insertion, monotone), "
          "C08_builtin_describes (end to end). For the WHOLE universe, derived structs and enums included: "
          "C08_coherent_bound / C08_describes - for every name-coherent type (coherentB: among the guarded items - derived "
          "structs, per-variant inner structs, Ipv4Addr-style built-ins - a declaration identifies the item, and no "
          "unguarded declaration is an item's name; i.e. the type does not combine two different user types of one name, "
          "which the crate documents as unsupported) the container for_type generates binds every declaration as intended "
          "and therefore a schema-only reader parses every encoding of every value exactly; proof: an invariant threaded "
          "through add_definitions_recursively (every guarded item whose name is in the map is completely bound or still "
          "open on the call stack), by induction over the universe (adds_coh). The driver evaluates the theorem's "
          "hypotheses for every catalogue type (hyp08 lines: all 236 schema types, the 98 generated derived items "
          "included, satisfy them). What stays outside: types that are NOT name-coherent - exactly finding F8 (known "
          "finding, witness theorem C08_F8_same_name_witness, shown non-coherent by a kernel-evaluated example) - and "
          "recursive user types (tied by the differential run and the schema-only reader oracle only)."),
    technique="Lean 4 proof (schema-only reader parses every encoding exactly, induction over the universe; map-insertion spec of add_definition) + byte-exact differential check of containers + schema-only reader oracle",
    design_ref="§5 C08")
CLAIMS['C09'] = dict(
    text=("Kernel-checked theorems: C09_exact_when_ok (for EVERY container - cycles, dangling names, hostile widths - "
          "a reported maximum equals the specification's maximum specMax, by induction on the evaluation), "
          "C09_ok_fits, C09_count_scales (the element-count multiplier is applied at every nesting level), "
          "C09_checked_arith, C09_F1_array_of_enum (regression witness of the repaired finding F1). Differential run: "
          "containers of ~150 Rust types and thousands of generated hostile containers (decoded by the real code from "
          "bytes) through max_serialized_size vs the model; every reported result is also judged by specMax "
          "(contchk lines: a disagreement there is a property violation); oracle: no value encodes longer than the "
          "reported bound, no panic. Also proved for every container: C09_complete (a finite maximum that fits the "
          "address space is always reported), C09_ok_iff (a bound is reported iff specMax is finite and < 2^64, and "
          "then equals it), C09_error_iff (an error iff there is no representable bound), C09_never_panics "
          "(pigeonhole on the duplicate-free stack of defined declarations: |definitions|+1 levels suffice). "
          "Partial: specMax is an executable specification with the same cycle rule (a declaration met again on the "
          "current path is unbounded), not a semantic supremum over all values; which of several simultaneous errors "
          "is reported is compared per case only. Soundness against values, every container (C09_sound_container / C09_sound_stream, via sdec_bound): whenever a maximum is reported, no byte string that a schema-only reader walks exactly is longer, so specMax is an upper bound on what the schema describes and not only a formula; C09_sound_types: with Bnd (derived from for_type for built-in compositions by C08_builtin_bound) no value of the Rust type serializes to more bytes than the reported maximum. Tightness (C09_tight / C09_is_maximum, via specMax_attained): on every readable container (non-empty enums with distinct in-range discriminants, ranges that fit their width - checked for the container of every Rust type on every run) the reported maximum is attained by a described byte string, so it is the true maximum. C09_sound_rust_types: end to end for every name-coherent Rust type (derived structs and enums included) - whatever maximum is reported for the container for_type generates, no value of the type serializes to more bytes."),
    technique="Lean 4 proof (exactness by induction on the fuelled evaluation) + differential check incl. specification verdict per case",
    design_ref="§5 C09")
CLAIMS['C10'] = dict(
    text=("Kernel-checked theorems: C10_length_width_iff (check_length_width accepts exactly widths 0,1,2,4,8 that "
          "are wide enough), C10_length_width_defect (a reported width error names the checked declaration and the "
          "defect is real), C10_missing_root, C10_F3_full_range_no_panic and C10_F2_repeated_zero_sized_member "
          "(regression witnesses of the repaired findings F3/F2). Differential run: validate() of the real code vs "
          "the model on containers of all schema types and thousands of generated hostile containers (extreme "
          "ranges, widths 0..255, cycles, repeated zero-sized members, dangling names), panics caught; compared: "
          "Ok/Err, error variant and the declaration named. Also proved for every container: C10_never_panics / "
          "C10_zero_size_never_panics (validation and the zero-size analysis are total: no panic, no fuel "
          "exhaustion), C10_error_is_real (a reported error names a declaration whose own definition has exactly "
          "that defect; a missing name is absent), C10_validate_ok_iff_wellformed (validate() = Ok iff no "
          "declaration reachable from the root has a defect - WellFormed, stated with inductive reachability and "
          "zero-sizedness as existence of a finite derivation, no fuel or stacks), C10_zero_size_iff (is_zero_size "
          "answers Ok(true) exactly on the zero-sized declarations). The executable predicate wellFormedDec used by "
          "the contval verdict lines is a second, independent formulation (iterated fixed points); its agreement "
          "with WellFormed is checked per case, not proved."),
    technique="Lean 4 proof (validate = Ok iff declarative well-formedness, totality, error soundness; every container) + differential check on generated containers",
    design_ref="§5 C10")
CLAIMS['C14'] = dict(
    text=("Kernel-checked theorems for every owned collection kind: C14_ser_refused_{seq,deque,set,map} (refused with "
          "the public InvalidData message and NOTHING written), C14_de_refused_{seq,set,map} (refused over ANY reader "
          "state, i.e. before any length is read), C14_fixed_ok_array, C14_agrees_with_schema_examples / "
          "C14_agrees_nonzero_examples (run-time refusal and ZSTSequence verdict agree; kernel-evaluated on 7 "
          "zero-sized shapes incl. the F2 witness), and for EVERY element type: C14_agreement_seq / C14_agreement_set / "
          "C14_agreement_builtin (an element type empty in memory and on the wire is refused by both codecs and its "
          "collection's container gets the ZSTSequence verdict: wireZero => ZeroSized by induction over the universe, "
          "then validate_flags_zst_root through the is_zero_size iff). Differential run over 28 collection types (incl. VecDeque, "
          "LinkedList, hash/btree/index sets and maps, 3 hashers) x zero-sized element shapes x claimed lengths "
          "{0,1,2,2^32-1}, both directions, with counting reader/writer (0 read calls, 0 bytes written). The agreement clause is also judged directly on the real code: the zero-sized collections that have a schema (26 types, incl. elements reaching () / PhantomData / RangeFull twice) go through for_type + validate; refused at run time implies ZSTSequence, the root is named, every value is refused. C14_agreement_coherent / C14_agreement_coherent_set: the agreement of run-time refusal and schema verdict for every name-coherent element type (derived unit structs, structs of PhantomData and zero-length arrays), end to end from for_type."),
    technique="Lean 4 proof (refusal lemmas over an arbitrary reader) + differential check with counting reader/writer",
    design_ref="§5 C14")
CLAIMS['C17'] = dict(
    text=("Kernel-checked theorems: C17_accept_implies_same_schema (whenever try_from_slice_with_schema::<U> accepts, "
          "the bytes begin with a well-formed container EQUAL to U's schema, the value follows and nothing is left - "
          "contrapositive: a foreign or meaning-changing corrupted schema is rejected), C17_mismatch_rejected, "
          "C17_insert_sorted_head (definitions are kept in ascending name order), C17_roundtrip_partial (what "
          "try_to_vec_with_schema writes, try_from_slice_with_schema at the same type accepts and returns the "
          "canonical value, both modes; uses the map case of C01 on the container's BTreeMap, containerOfVal o "
          "containerToVal = id and canon_container). Differential run: 400 ordered type "
          "pairs (T written, U read) x values vs the model; single-bit corruptions of the embedded schema; thousands "
          "of generated containers round-tripped through the real to_vec/from_slice (equal container, identical "
          "bytes). Partial: the round-trip theorem assumes the type's own container is a well-typed wire value "
          "(decidable per type; UTF-8 names, ascending definitions) and keysOk. C17_foreign_rejected (what try_to_vec_with_schema::<T> wrote is never accepted at a type U whose schema differs, both modes), C17_container_roundtrip (every well-typed container, hostile ones included, reads back as the same container with nothing left), C17_container_canonical (definitions of every generated container - derived items with the derive's shortcut included - are in strictly ascending name order; pres_all by induction over the universe), C17_definitions_only_added. The schema-prefixed reader as an entry point for untrusted, whole input: C17_with_schema_trailing_rejected_partial (bytes after the value: not-all-bytes-read), C17_with_schema_prefix_rejected_partial (every proper prefix rejected, cut in the schema or in the value), C17_with_schema_safe (for every byte string - hostile embedded schemas included - no panic and every refusal is InvalidData; the embedded container is only decoded and compared, never validated or measured). Workloads: with_schema_framing (tails, two blobs, every prefix), with_schema_hostile (doubling definition graphs, 30 000-deep chains on a 512 KiB stack under a watchdog), same-named types through the helpers in both orders."),
    technique="Lean 4 proof (acceptance implies schema equality) + differential check over type pairs and generated containers",
    design_ref="§5 C17")

CLAIMS['C11'] = dict(
    text=("Kernel-checked theorems: C11_schedule_independent / C11_same_value / C11_same_error - for EVERY type of the "
          "universe, every stream, every chunk pattern and every placement of transient Interrupted results, "
          "deserialize_reader over the scripted reader returns the slice decoder's value or its very error and stops "
          "exactly where the slice decoder stops (nothing beyond the value is consumed); C11_whole_input (from_reader/"
          "try_from_reader agree with from_slice, the probe reads past exactly the end). Proof: closed forms of the "
          "read_exact loop and of the byte-vector loop over a scripted read (induction on remaining bytes + pending "
          "interrupts) and a reader-simulation theorem by induction over the universe. Differential run: scripted "
          "readers (explicit compositions, 1-byte, cyclic patterns, interrupts, a hard failure at every offset with 7 "
          "kinds, >1 MiB byte vectors in odd chunks), three reader entry points, std and no_std io; oracle: equals "
          "the slice result, failures inside the value come back unchanged, failures beyond it are invisible. "
          "Partial: the hard-failure clauses are tied by oracle + correspondence, not yet by theorem. Hard failures (scripts with a stop that is not Interrupted/UnexpectedEof; closed forms readExactLoop_stop / bulkLoopI_stop; cut-off simulation de_simB over the universe): C11_hard_failure (a failure at an offset inside the value is returned with kind and message unchanged), C11_failure_after_value (a failure the decoder never reaches is invisible and the reader stands at the end of the value), C11_failure_or_same_error, C11_failure_general. C11_any_reader: the scripted readers are one instance of a general statement - any reader whose read_exact / byte-vector read answer like the slice's decodes every type like the slice."),
    technique="Lean 4 proof (loop closed forms + reader simulation by induction over the universe) + differential check with scripted readers",
    design_ref="§5 C11")
CLAIMS['C12'] = dict(
    text=("Model: the serializer as a trace of write_all calls (the Rust code never inspects its writer) run against "
          "a scripted writer through the write_all loop, against &mut [u8], and against the length-only writer. "
          "Kernel-checked theorems: C12_object_length(_ok) (object_length = length of the encoding, same refusals), "
          "runTraceFixed_eq / C12_fixed_buffer (a buffer that is large enough is filled with exactly the encoding, a "
          "smaller one receives its first cap bytes and WriteZero; never a panic), C12_delivers_encoding / "
          "C12_prefix_on_failure (any scripted writer - any chunking, any interrupts, a stop of any non-Interrupted "
          "kind at any offset - receives the whole encoding, or exactly its prefix up to the stop with the writer's "
          "own error). Differential run: every value x "
          "chunk patterns x interrupts x a stop (Ok(0) or hard failure, 7 kinds) at EVERY offset 0..len x fixed "
          "buffers of EVERY capacity 0..len+1 x object_length, std and no_std io; oracle: delivered bytes are the "
          "first k bytes of the encoding and the error is unchanged. Partial: writers outside the script language "
          "(returning more than given, Interrupted forever) are not modelled. C12_any_writer: for ANY writer honouring the io::Write contract (a successful write_all delivered its buffer, a failed one a prefix of it) what reaches the sink is always a prefix of the encoding in order, and on Ok exactly the encoding; Vec and fixed buffers are instances. Every scripted writer is proved to honour that contract for EVERY script (writeAllLoop_prefix: any chunking, interrupt placement, Ok(0) or hard failure anywhere - AnyWriter.script), so C12_script_prefix holds unconditionally: whatever the script does, the sink holds a prefix of the encoding, and Ok means the whole encoding."),
    technique="Lean 4 proof (trace semantics; closed forms for fixed buffers and the length writer) + differential check with scripted writers",
    design_ref="§5 C12")

CLAIMS['C13'] = dict(
    text=("The codec model has no io parameter: both builds compile the same borsh source and are described by the "
          "same Lean functions; the io facade is modelled twice (std::io as documented, nostd_io.rs as written) and "
          "proved equivalent: C13_reader_equiv, C13_slice_writer_equiv, C13_vec_writer_equiv (every sequence of "
          "read/read_exact/write/write_all/flush on slices and vectors, reads past the end and full buffers included), "
          "C13_read_exact_loop_equiv. Differential run: the SAME harness source built against both builds runs the "
          "same seeded workloads (encodings, malformed inputs, scripted readers/writers, zero-sized collections, io "
          "operation sequences); four transcripts (real std, real no_std, model) are compared: each build against the "
          "model, and std against no_std case by case, plus the raw error message texts of both builds on the "
          "malformed-input workload."),
    technique="Lean 4 proof (equivalence of the two io models by induction over operation sequences) + 4-way differential transcripts",
    design_ref="§5 C13")

CLAIMS['C15'] = dict(
    text=("State-machine model of the MaybeUninit buffer and its drop guard (slots, init_count, events) following "
          "de/mod.rs:780-828 step by step, with kernel-checked theorems for EVERY length N and EVERY plan of element "
          "results: C15_failure_at_k (error or panic at position k: exactly elements 0..k-1 constructed, each dropped "
          "exactly once in index order, element k never constructed, nothing handed over), C15_success (all handed to "
          "the caller once, the guard drops nothing), C15_no_uninit_touch (no uninitialised slot is read or dropped), "
          "C15_exactly_once (constructions = drops + hand-overs per element). Differential run: the real "
          "<[T; N]>::deserialize_reader with a heap-owning instrumented element for all N in 0..=33 and 64, every "
          "failing position, error return and panic; the ledger is compared event for event with the model; oracle: "
          "every constructed element released exactly once. The same decoder additionally runs under Miri "
          "(/verif/miri: N in {0,1,2,3,5,8,17}, every failing position, error and panic mode, zero-sized elements "
          "with drop glue, truncated input; undefined behaviour or a leak is a violation with the execution as "
          "replay). Partial: Miri explores the sampled executions, it does not prove UB-freedom of the unsafe "
          "block for all N; the theorem covers the bookkeeping for all N. C15_exactly_once_with_unwinding_destructor (a destructor unwinding during the guard's cleanup changes how the call ends, not which elements are released; errdrop lines); workloads: zero-sized elements with drop glue, arrays above 4096 bytes, Interrupted / bare-kind element failures."),
    technique="Lean 4 proof (loop invariant over a state machine, all N and plans) + event-for-event differential check with an instrumented element type",
    design_ref="§5 C15")

CLAIMS['C06'] = dict(
    text=("Model of the derive macros: tag assignment Derive.tagsOf (ordinal, or the compiler's discriminant rule), "
          "field walks with skip => Default, init hook, variant if-chain; derived items are lowered to the same type "
          "universe, so C01/C02/C04/C05 apply to them. Kernel-checked theorems: C06_tags_ordinal, C06_tags_explicit, "
          "C06_discriminant_rule_{explicit,implicit}, C06_one_tag_per_variant, C06_ordinal_tags_distinct, "
          "C06_fields_in_order (derived struct encoding = specification field walk), "
          "C06_skipped_field_not_encoded, C06_skip_default (over any reader, nothing read), C06_variant_agrees, "
          "C06_unknown_tag, C06_init_once + C06_init_increments_once, C06_roundtrip_partial. Differential run: 76 "
          "generated items compiled with the REAL macros (bounded-exhaustive structs 0..3 fields x every skip mask x "
          "named/tuple/unit; enums 1..4 variants, explicit discriminants under both settings, 200 and 256 variants, "
          "generics incl. a parameter used only by a skipped field, init on structs and enums, serialize_with/"
          "deserialize_with fixture, nesting to depth 4); the item description given to the model carries the SURFACE "
          "discriminants - tags are assigned by the model; oracle: EnumExt::deserialize_variant agrees with whole-enum "
          "decoding for valid and unknown tags."),
    technique="Lean 4 proof (lemmas about the macro model + instances of the codec theorems) + differential check on items compiled with the real macros",
    design_ref="§5 C06")
CLAIMS['C18'] = dict(
    text=("Decision model Derive.accepts of the macros' attribute checks and of what rustc does with the generated tag "
          "expressions. Kernel-checked theorems: C18_decision_struct (a struct compiles IFF it violates none of the "
          "listed rules), C18_union_rejected, C18_explicit_discriminant_needs_setting, C18_too_many_variants, "
          "C18_discriminant_must_fit (explicit or implicit discriminants outside 0..=255 under use_discriminant=true), "
          "C18_F7_witness (regression witness of the repaired finding F7), C18_skip_conflict_position_independent. "
          "Tie: ~120 (thorough ~170) generated items - positive controls and single-rule violations applied at every "
          "variant/field/attribute position - each compiled as its own crate by rustc against the borsh rlib and "
          "derive .so built from /repo; three verdicts compared per item: the statement's list, rustc, the model. "
          "rustc's own part (typing of u8 literals, duplicate discriminants) is observed, not modelled. C18_decision_enum and C18_decision: an enum (any number, order and shape of variants) and hence any item compiles exactly when it violates none of the listed rules."),
    technique="Lean 4 proof of the decision logic + per-item rustc compilation against the real macros",
    design_ref="§5 C18")

CLAIMS['C07'] = dict(
    text=("Kernel-checked theorems: C07_no_panic / C07_no_panic_from_slice (for EVERY type of the universe and every "
          "byte string the slice decoder returns Ok or Err - no reachable panic site), C07_consumes (a successful "
          "decode consumes a prefix of at least minWire t bytes), C07_work_bound (a Vec<T> decode whose elements "
          "occupy >= 1 wire byte produces at most |input|-4 elements: a length prefix cannot buy element decodes), "
          "C07_bulk_alloc (every buffer the byte-vector loop requests is <= 1 MiB or twice the bytes actually present, "
          "whatever the claimed length), C07_capacity_hint (the Vec capacity hint is <= 4096 bytes or one element). "
          "Differential run under a counting global allocator: valid encodings with adversarial length prefixes "
          "(0xFFFFFFFF, 0x80000000, 0x7FFFFFFF, 1 MiB, 1 MiB+1) over every 4-byte window, random strings; oracle: no "
          "panic, largest single allocation and peak live bytes bounded by 1 MiB + 64 KiB + 4*size_of + 160*|input|; "
          "the input is written to disk before decoding so that an abort is reported with its culprit. Partial: the "
          "composed memory bound over arbitrary nestings is measured, not proved; stack depth is bounded by the type "
          "(the universe is recursion-free), recursive user types are outside the statement. Composed bound for the whole universe (C07_value_size_bound / C07_value_size_linear, work_all by induction over the universe): for every type all of whose collection elements occupy at least one byte on the wire (occ, at every nesting level) the decoded value - every element of every nested collection, every string byte - has at most costA t + costB t * (bytes consumed) nodes with type-only constants, so elements decoded and memory retained are linear in the input."),
    technique="Lean 4 proof (totality and consumption by induction over the universe; allocation rules of the two sizing sites) + differential check under a counting allocator",
    design_ref="§5 C07")

NOT_YET = {
}

def main():
    props = [json.loads(l)['id'] for l in open(os.path.join(ROOT, 'properties.jsonl'))]
    checks = []
    for pid in props:
        if pid not in CLAIMS:
            continue
        c = CLAIMS[pid]
        checks.append(dict(
            property_id=pid,
            quick_cmd='bin/check %s quick' % pid,
            thorough_cmd='bin/check %s thorough' % pid,
            evidence_file='evidence/%s.json' % pid,
            replay_cmd_template='bin/check %s replay {path}' % pid,
            engine='lean-model+harness',
            level_claimed=dict(category='proof', text=c['text'], design_ref=c['design_ref']),
            level_note=LEVEL_NOTE,
            technique=c['technique'],
        ))
    na = []
    for pid in props:
        if pid not in CLAIMS:
            na.append(dict(property_id=pid, reason=NOT_YET.get(pid,
                      'not claimed yet: the check for this property is still being built (see DESIGN.md §10 staging); '
                      'machine-checked proof does apply to it')))
    man = dict(
        version=1,
        setup_cmd='bin/setup',
        hooks=dict(guard='near_borsh_rs_verif',
                   enable='n/a: no hook inside /repo is needed; all instrumentation lives in /verif/harness',
                   baseline_off_cmd='cd /repo && cargo test --workspace --no-fail-fast --offline',
                   source_commits=[], add_only=True),
        engines=[
            dict(name='lean-model', path='lean', serves_properties=sorted(CLAIMS),
                 kind_free_text='Lean 4 model of borsh-rs (BorshModel) with property theorems (BorshModel/Theorems) and a compiled line-protocol driver'),
            dict(name='harness', path='harness', serves_properties=sorted(CLAIMS),
                 kind_free_text='Rust differential harness built against /repo in up to four feature configurations'),
            dict(name='check', path='bin/check', serves_properties=sorted(CLAIMS),
                 kind_free_text='decision protocol: proof step, build, run, model, verdict, evidence'),
        ],
        checks=checks,
        notes='See DESIGN.md. Known findings: known_findings.txt. Seeded changes: seeded/.',
        not_applicable=na,
    )
    with open(os.path.join(ROOT, 'MANIFEST.json'), 'w') as f:
        json.dump(man, f, indent=1)
    print('MANIFEST.json: %d checks, %d not claimed' % (len(checks), len(na)))

if __name__ == '__main__':
    main()
