#!/bin/bash
# runs every quick check in turn (after bin/setup has been run); prints one line per property
cd "$(dirname "$0")/.." || exit 2
for p in ${@:-C01 C02 C03 C04 C05 C06 C07 C08 C09 C10 C11 C12 C13 C14 C15 C16 C17 C18}; do
  s=$(date +%s)
  out=$(bin/check $p quick 2>&1); rc=$?
  e=$(date +%s)
  echo "== $p quick: exit $rc in $((e-s))s"
  echo "$out" | grep -E "VIOLATION|KNOWN-FINDING|cases,|error|Traceback" | cut -c1-300 | head -8
done
