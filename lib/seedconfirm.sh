#!/bin/bash
# usage: seedconfirm.sh <worktree> <seed-id> "<demo cargo flags>"
# Confirms a seeded change independently: patched tree compiles, the existing suite passes,
# the demonstration fails with the change and passes without it.  Then stores it under /verif/seeded/<id>/.
set -u
wt=$1; id=$2; flags=${3:-}
cd "$wt" || exit 2
export CARGO_NET_OFFLINE=true
log=/tmp/seedconfirm-$id.log; : > $log
echo "== patch applies to clean HEAD?" | tee -a $log
# (no `git stash`: the stash is shared between worktrees of one repository)
git checkout -q -- . 2>/dev/null
git apply --check SEED/patch.diff && echo "applies: yes" | tee -a $log || { echo "applies: NO" | tee -a $log; }
echo "== demo WITHOUT the change (must pass)" | tee -a $log
cp SEED/demo.rs borsh/tests/seed_demo.rs
cargo test -p borsh --test seed_demo --offline $flags >> $log 2>&1; rc_without=$?
echo "rc_without=$rc_without" | tee -a $log
git apply SEED/patch.diff
echo "== demo WITH the change (must fail)" | tee -a $log
cargo test -p borsh --test seed_demo --offline $flags >> $log 2>&1; rc_with=$?
echo "rc_with=$rc_with" | tee -a $log
rm -f borsh/tests/seed_demo.rs
echo "== existing suite WITH the change (must pass)" | tee -a $log
cargo test --workspace --no-fail-fast --offline > /tmp/seedconfirm-$id.suite 2>&1; rc_suite=$?
grep -E "^test result" /tmp/seedconfirm-$id.suite | awk '{p+=$4; f+=$6} END{print p" passed "f" failed"}' | tee -a $log
echo "rc_suite=$rc_suite" | tee -a $log
if [ $rc_without -eq 0 ] && [ $rc_with -ne 0 ] && [ $rc_suite -eq 0 ]; then
  mkdir -p /verif/seeded/$id
  cp SEED/patch.diff SEED/demo.rs /verif/seeded/$id/
  [ -f SEED/NOTES.md ] && cp SEED/NOTES.md /verif/seeded/$id/
  echo "CONFIRMED $id" | tee -a $log
  exit 0
else
  echo "NOT CONFIRMED $id" | tee -a $log
  exit 1
fi
