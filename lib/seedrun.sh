#!/bin/bash
# usage: seedrun.sh <seed-id> <prop>...   applies /verif/seeded/<id>/patch.diff to /repo, runs the quick
# checks of the given properties, and always restores /repo afterwards.
set -u
id=$1; shift
cd /verif
if ! git -C /repo diff --quiet; then echo "/repo is dirty, refusing"; exit 2; fi
# evidence files describe the unchanged tree: keep them out of the seeded runs
bk=$(mktemp -d /verif/.build/evidence-bk.XXXXXX); cp -a evidence/. $bk/
git -C /repo apply /verif/seeded/$id/patch.diff || { rm -rf $bk; exit 2; }
for p in "$@"; do
  out=$(VERIF_NO_SEARCH=${VERIF_NO_SEARCH:-} bin/check $p quick 2>&1); rc=$?
  echo "--- $id vs $p: exit $rc"
  echo "$out" | grep -E "VIOLATION|KNOWN|cases," | cut -c1-220
done
git -C /repo checkout -- .
cp -a $bk/. evidence/; rm -rf $bk
