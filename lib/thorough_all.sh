#!/bin/bash
# runs bin/setup and then every thorough check in turn; prints one line per property
cd "$(dirname "$0")/.." || exit 2
bin/setup > /tmp/thorough-setup.log 2>&1 || { echo "setup failed"; tail -20 /tmp/thorough-setup.log; exit 2; }
for p in ${@:-C01 C02 C03 C04 C05 C06 C07 C08 C09 C10 C11 C12 C13 C14 C15 C16 C17 C18}; do
  s=$(date +%s)
  out=$(bin/check $p thorough 2>&1); rc=$?
  e=$(date +%s)
  echo "== $p thorough: exit $rc in $((e-s))s"
  echo "$out" | grep -E "VIOLATION|KNOWN-FINDING|cases,|error|Traceback" | cut -c1-300 | head -8
done
