//! C15 under Miri: the `[T; N]` decoder of the real crate with a heap-owning, drop-counting element
//! type whose decoder fails (error return or panic) at a planned position.  Miri reports undefined
//! behaviour (dropping or reading a never-initialised slot, double drops, use after free) and leaks;
//! the ledger asserts "constructed elements are dropped exactly once, nothing else is".
use borsh::io::{Error, ErrorKind, Read, Result};
use borsh::BorshDeserialize;
use std::cell::RefCell;
use std::panic::{catch_unwind, AssertUnwindSafe};

thread_local! {
    static LEDGER: RefCell<Vec<(bool, usize)>> = RefCell::new(Vec::new());
    static NEXT: RefCell<usize> = RefCell::new(0);
    static PLAN: RefCell<(Option<usize>, u8)> = RefCell::new((None, 0));
}

struct Tracked {
    id: usize,
    _heap: Box<[u64; 4]>,
    _text: String,
}

impl BorshDeserialize for Tracked {
    fn deserialize_reader<R: Read>(reader: &mut R) -> Result<Self> {
        let b = u8::deserialize_reader(reader)?;
        let id = NEXT.with(|n| {
            let mut n = n.borrow_mut();
            let v = *n;
            *n += 1;
            v
        });
        let (fail_at, mode) = PLAN.with(|p| *p.borrow());
        if fail_at == Some(id) {
            if mode == 1 {
                panic!("planned panic in element decoder");
            }
            return Err(if mode == 2 { ErrorKind::Interrupted.into() } else { Error::new(ErrorKind::InvalidData, "planned failure") });
        }
        LEDGER.with(|l| l.borrow_mut().push((true, id)));
        Ok(Tracked { id, _heap: Box::new([b as u64; 4]), _text: format!("element {}", id) })
    }
}

impl Drop for Tracked {
    fn drop(&mut self) {
        LEDGER.with(|l| l.borrow_mut().push((false, self.id)));
    }
}

/// zero-sized element with drop glue
struct Unit;
impl BorshDeserialize for Unit {
    fn deserialize_reader<R: Read>(_reader: &mut R) -> Result<Self> {
        let id = NEXT.with(|n| {
            let mut n = n.borrow_mut();
            let v = *n;
            *n += 1;
            v
        });
        let (fail_at, mode) = PLAN.with(|p| *p.borrow());
        if fail_at == Some(id) {
            if mode == 1 {
                panic!("planned panic in element decoder");
            }
            return Err(if mode == 2 { ErrorKind::Interrupted.into() } else { Error::new(ErrorKind::InvalidData, "planned failure") });
        }
        LEDGER.with(|l| l.borrow_mut().push((true, id)));
        Ok(Unit)
    }
}
impl Drop for Unit {
    fn drop(&mut self) {
        LEDGER.with(|l| l.borrow_mut().push((false, usize::MAX)));
    }
}

fn check(n: usize, fail_at: Option<usize>, ok: bool, zst: bool) {
    let ledger = LEDGER.with(|l| l.borrow().clone());
    let built = ledger.iter().filter(|e| e.0).count();
    let dropped = ledger.iter().filter(|e| !e.0).count();
    let expect = match fail_at {
        Some(k) if k < n => k,
        _ => n,
    };
    assert_eq!(built, expect, "N={} fail_at={:?}: {} elements constructed", n, fail_at, built);
    assert_eq!(dropped, expect, "N={} fail_at={:?}: {} constructed, {} dropped", n, fail_at, built, dropped);
    assert_eq!(ok, fail_at.map_or(true, |k| k >= n), "N={} fail_at={:?}: outcome", n, fail_at);
    if !zst {
        for id in 0..expect {
            let d = ledger.iter().filter(|e| !e.0 && e.1 == id).count();
            assert_eq!(d, 1, "element {} dropped {} times", id, d);
        }
    }
}

fn run<const N: usize>(fail_at: Option<usize>, mode: u8) {
    LEDGER.with(|l| l.borrow_mut().clear());
    NEXT.with(|n| *n.borrow_mut() = 0);
    PLAN.with(|p| *p.borrow_mut() = (fail_at, mode));
    let data = vec![7u8; N + 2];
    println!("case N={} fail_at={:?} mode={}", N, fail_at, ["error", "panic", "interrupted"][mode as usize]);
    let res = catch_unwind(AssertUnwindSafe(|| {
        let mut s = &data[..];
        <[Tracked; N]>::deserialize_reader(&mut s).map(|a| {
            // the array is usable: read every element
            a.iter().map(|t| t._heap[0] as usize + t._text.len()).sum::<usize>()
        })
    }));
    let ok = matches!(res, Ok(Ok(_)));
    check(N, fail_at, ok, false);
    // truncated input: the reader itself fails at position N - 1
    if N > 0 && fail_at.is_none() {
        LEDGER.with(|l| l.borrow_mut().clear());
        NEXT.with(|n| *n.borrow_mut() = 0);
        let short = vec![7u8; N - 1];
        let mut s = &short[..];
        let r = <[Tracked; N]>::deserialize_reader(&mut s);
        assert!(r.is_err());
        drop(r);
        let ledger = LEDGER.with(|l| l.borrow().clone());
        assert_eq!(ledger.iter().filter(|e| e.0).count(), N - 1);
        assert_eq!(ledger.iter().filter(|e| !e.0).count(), N - 1);
    }
    // zero-sized elements with drop glue
    LEDGER.with(|l| l.borrow_mut().clear());
    NEXT.with(|n| *n.borrow_mut() = 0);
    let res = catch_unwind(AssertUnwindSafe(|| {
        let mut s = &data[..];
        <[Unit; N]>::deserialize_reader(&mut s).map(|_| 0usize)
    }));
    let ok = matches!(res, Ok(Ok(_)));
    check(N, fail_at, ok, true);
}

fn all<const N: usize>() {
    run::<N>(None, 0);
    for k in 0..N {
        run::<N>(Some(k), 0);
        run::<N>(Some(k), 1);
        run::<N>(Some(k), 2);
    }
}

fn main() {
    std::panic::set_hook(Box::new(|_| {}));
    all::<0>();
    all::<1>();
    all::<2>();
    all::<3>();
    all::<5>();
    all::<8>();
    all::<17>();
    println!("guard-miri: ok");
}
